#!/usr/bin/env python3
"""keep_benign.py <benign-batch-log> <mut-dir>
Stores the behaviour-preserving changes of the benign wave under /verif/seeded/benign-<name>/ :
patch.diff, notes.md (the author's description and equivalence argument) and meta.json (what was run; every
quick check has to stay silent on them)."""
import sys, re, os, json, shutil
log, mutdir = sys.argv[1], sys.argv[2]
txt = open(log).read()
for b in re.split(r'^=== ', txt, flags=re.M)[1:]:
    name = b.split('\n', 1)[0].strip()          # e.g. A05-m2
    m = re.search(r'^CONFIRM \S+: (.*)$', b, re.M)
    c = re.search(r'^CAMPAIGN \S+ \((\w+)\) fired:(.*)$', b, re.M)
    if not m:
        continue
    area, mn = name.split('-')
    src = os.path.join(mutdir, area + '-out')
    dst = f'/verif/seeded/benign-{name}'
    os.makedirs(dst, exist_ok=True)
    shutil.copy(os.path.join(src, mn + '.diff'), os.path.join(dst, 'patch.diff'))
    notes = open(os.path.join(src, mn + '.md')).read()
    open(os.path.join(dst, 'notes.md'), 'w').write(notes)
    first = next((l.strip('# *').strip() for l in notes.splitlines() if l.strip()), '')
    fired, broken = [], []
    if c:
        rest = c.group(2)
        fired = [x for x in rest.split(' BROKEN:')[0].split() if x != 'none']
        broken = rest.split(' BROKEN:')[1].split() if ' BROKEN:' in rest else []
    meta = {
        'name': f'benign-{name}', 'kind': 'benign change: must NOT be flagged',
        'origin': 'independent sub-agent, given the text of all twenty properties, one area of the library and a scratch worktree; asked for realistic behaviour-preserving refactorings / optimisations / default-off features that look risky to an automated checker',
        'summary': first[:300],
        'confirmed_in_scratch_worktree': {'tool': 'tools/benign_batch.sh', 'result': m.group(1)},
        'checks_run': {'tool': 'tools/campaign.sh (all 20 quick checks, VERIF_SEED=1, scratch worktree of /repo HEAD + patch)', 'ran': bool(c),
                       'fired': fired, 'broken_check': broken, 'silent': bool(c) and not fired and not broken},
    }
    json.dump(meta, open(os.path.join(dst, 'meta.json'), 'w'), indent=1)
    print(name, 'silent' if meta['checks_run']['silent'] else ('FIRED ' + ' '.join(fired + broken) if c else 'not run: ' + m.group(1)))
