#!/bin/bash
# mutant_batch.sh <out-file> <Cxx> ...   evaluates the sub-agent mutants found in /tmp/mut/<Cxx>-out
out="$1"; shift
# freeze the harness sources for the whole batch, so that editing /verif/harness meanwhile is harmless
snap=/tmp/scratch/harness-snap-$$
mkdir -p $snap; rsync -a --delete ${HARNESS_SRC:-/verif/harness}/ $snap/
export VERIF_HARNESS=$snap
for pid in "$@"; do
  for n in 1 2; do
    d=${MUTDIR:-/tmp/mut}/$pid-out
    [ -f $d/m$n.diff ] || continue
    demo=$d/m${n}_demo_test.go
    dir=url; grep -q "^package canonicalizer" $demo && dir=canonicalizer
    race=""; grep -q -- "-race" $d/m$n.md && race="-race"   # harmless when the demonstration does not need it
    name=$pid-m$n
    echo "=== $name" >> $out
    [ -n "${SKIP_CONFIRM:-}" ] || /verif/tools/seed_confirm.sh $name $d/m$n.diff $demo $dir $race >> $out 2>&1
    /verif/tools/campaign.sh $name $d/m$n.diff quick >> $out 2>&1
  done
done
rm -rf $snap
echo "BATCH DONE" >> $out
