#!/usr/bin/env python3
"""automutate.py <count> <seed> <out-log>

Automatic sweep of single-token mutants over the library's non-test sources (DESIGN.md §8.6):
for a seeded random sample of candidate edits (operator swaps, negated conditions, boundary
constants, dropped statements) it
  1. applies the edit in ONE scratch worktree of /repo HEAD (/tmp/scratch/camp-wt),
  2. keeps it only if the tree still builds and the repository's own suite still passes,
  3. runs all twenty quick checks against the mutated worktree (VERIF_REPO),
  4. logs which checks fired.
Survivors of step 3 (no check fires) are either equivalent mutants or misses and are triaged
by hand.  Nothing is applied to /repo itself; the worktree is removed at the end.
"""
import os, random, re, subprocess, sys, shutil, json

COUNT, SEED, OUT = int(sys.argv[1]), int(sys.argv[2]), sys.argv[3]
WT, OUTDIR = os.environ.get("CAMP_WT", "/tmp/scratch/camp-wt"), os.environ.get("CAMP_OUT", "/tmp/scratch/camp-out")
ENV = dict(os.environ, GOFLAGS="-mod=mod", GOPROXY="off", GOSUMDB="off", GOTOOLCHAIN="local")
FILES = ["url/parser.go", "url/hostparser.go", "url/url.go", "url/searchparams.go", "url/path.go", "url/inputstring.go",
         "url/codesets.go", "url/errorhandler.go", "url/parseroptions.go", "canonicalizer/canonicalizer.go", "canonicalizer/profiles.go",
         "canonicalizer/options.go", "errors/errors.go"]
SWAPS = [(r" == ", " != "), (r" != ", " == "), (r" < ", " <= "), (r" <= ", " < "), (r" > ", " >= "), (r" >= ", " > "),
         (r" && ", " || "), (r" \|\| ", " && "), (r"\btrue\b", "false"), (r"\bfalse\b", "true"),
         (r" \+ 1\b", " + 2"), (r" - 1\b", " - 2"), (r" \+ 1\b", ""), (r"\+\+", "--"), (r"if !", "if "), (r"\b0x7e\b", "0x7f"), (r"\b0x007E\b", "0x007F"),
         (r"\b65535\b", "65536"), (r"\b255\b", "256"), (r"\b8\b", "7"), (r"\b4\b", "5"), (r"\b3\b", "2"), (r"\b2\b", "3"), (r"\b1\b", "0"), (r"\b0\b", "1"),
         (r"!= nil", "== nil"), (r"== nil", "!= nil"), (r'== ""', '!= ""'), (r'!= ""', '== ""'), (r"\.rewindLast\(\)", ".reset()"),
         (r"input\.eof \|\| ", ""), (r"\bcontinue\b", "break"), (r"\bbreak\b", "continue")]

def sh(cmd, cwd=None, timeout=1200):
    return subprocess.run(cmd, shell=True, cwd=cwd, env=ENV, capture_output=True, text=True, errors='replace', timeout=timeout)

def candidates():
    c = []
    for f in FILES:
        lines = open(os.path.join("/repo", f)).read().split("\n")
        in_block_comment = False
        for i, line in enumerate(lines):
            st = line.strip()
            if st.startswith("/*"):
                in_block_comment = True
            if in_block_comment:
                if "*/" in st:
                    in_block_comment = False
                continue
            if not st or st.startswith("//") or st.startswith("import") or st.startswith("package") or "verif" in st:
                continue
            code = line.split("//")[0]
            for pat, rep in SWAPS:
                for m in re.finditer(pat, code):
                    c.append((f, i, "swap", m.start(), m.end(), rep))
            # dropped statement: simple call or assignment statements
            if re.match(r"^\s+[A-Za-z_][\w\.\[\]\*]*(\(.*\)|\s*(=|\+=|:=)\s*.+)$", code) and not st.startswith(("return", "if", "for", "switch", "case", "func", "var", "defer", "go ")) and ":=" not in code:
                c.append((f, i, "drop", 0, 0, ""))
    return c

def main():
    rnd = random.Random(SEED)
    cands = candidates()
    rnd.shuffle(cands)
    log = open(OUT, "a")
    log.write(f"# automutate seed={SEED} candidates={len(cands)} sample={COUNT}\n"); log.flush()
    sh(f"git -C /repo worktree remove --force {WT}"); shutil.rmtree(OUTDIR, ignore_errors=True)
    r = sh(f"git -C /repo worktree add -q --detach {WT} HEAD")
    if r.returncode != 0:
        print(r.stderr); sys.exit(3)
    snap = f"/tmp/scratch/harness-snap-auto-{os.getpid()}"
    sh(f"mkdir -p {snap} && rsync -a --delete /verif/harness/ {snap}/")
    env_run = dict(ENV, VERIF_REPO=WT, VERIF_OUT=OUTDIR, VERIF_HARNESS=snap)
    done = 0
    for (f, i, kind, a, b, rep) in cands:
        if done >= COUNT:
            break
        path = os.path.join(WT, f)
        orig = open(path).read()
        lines = orig.split("\n")
        old = lines[i]
        if kind == "swap":
            lines[i] = old[:a] + rep + old[b:]
        else:
            lines[i] = ""
        if lines[i] == old:
            continue
        open(path, "w").write("\n".join(lines))
        desc = f"{f}:{i+1} {kind} `{old.strip()[:90]}` -> `{lines[i].strip()[:90]}`"
        r = sh("go build ./... && go vet ./url ./canonicalizer ./errors >/dev/null 2>&1; go build ./...", cwd=WT)
        if r.returncode != 0:
            open(path, "w").write(orig)
            continue
        done += 1
        try:
            r = sh("go test -vet=off -count=1 -timeout 90s ./...", cwd=WT, timeout=400)
        except subprocess.TimeoutExpired:
            log.write(f"KILLED-BY-SUITE(timeout) {desc}\n"); log.flush()
            open(path, "w").write(orig)
            continue
        if r.returncode != 0:
            log.write(f"KILLED-BY-SUITE {desc}\n"); log.flush()
            open(path, "w").write(orig)
            continue
        fired, broken = [], []
        for k in range(1, 21):
            pid = f"C{k:02d}"
            try:
                rr = subprocess.run(["./run.sh", pid, "quick"], cwd="/verif", env=env_run, capture_output=True, text=True, errors="replace", timeout=1500)
                rc = rr.returncode
            except subprocess.TimeoutExpired:
                rc = 99
            if rc == 1:
                fired.append(pid)
            elif rc != 0:
                broken.append(pid)
        tag = "DETECTED" if fired else ("BROKEN" if broken else "SURVIVED")
        log.write(f"{tag} {desc} fired: {' '.join(fired) or 'none'}" + (f" BROKEN: {' '.join(broken)}" if broken else "") + "\n"); log.flush()
        open(path, "w").write(orig)
    log.write("# done\n"); log.close()
    sh(f"git -C /repo worktree remove --force {WT}"); shutil.rmtree(OUTDIR, ignore_errors=True); shutil.rmtree(snap, ignore_errors=True)
    sh("rm -f /verif/bin/vcheck-????????* /verif/bin/vcheck-race-????????*")

if __name__ == "__main__":
    main()
