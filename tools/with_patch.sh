#!/bin/bash
# with_patch.sh [-R] <patch-file|commit> -- <command...>
# Applies a patch (or, with -R, reverts a commit/patch) to /repo's working tree, runs the
# command in /verif, and restores /repo afterwards.  Nothing is committed in /repo.
set -u
rev=""
if [ "$1" = "-R" ]; then rev="-R"; shift; fi
what="$1"; shift
[ "$1" = "--" ] && shift
if [ -n "$(git -C /repo status --porcelain)" ]; then echo "with_patch: /repo is not clean"; exit 3; fi
tmp=$(mktemp)
if [ -f "$what" ]; then cp "$what" "$tmp"; else git -C /repo show "$what" > "$tmp"; fi
if ! git -C /repo apply $rev "$tmp"; then echo "with_patch: patch does not apply"; rm -f "$tmp"; exit 3; fi
rm -f "$tmp"
cd /verif
"$@"
rc=$?
git -C /repo checkout -- . >/dev/null 2>&1
git -C /repo clean -fdq
exit $rc
