#!/usr/bin/env python3
"""Regenerates /verif/MANIFEST.json from the table below (one entry per claimed property)."""
import json, subprocess, sys, os

ROOT = os.path.dirname(os.path.dirname(os.path.abspath(__file__)))

def hook_commits():
    out = subprocess.run(["git", "-C", "/repo", "log", "--format=%H %s"], capture_output=True, text=True).stdout
    return [l.split()[0] for l in out.splitlines() if " verif hooks" in l or l.split(" ", 1)[1].startswith("verif hook")]

TRUST_MODEL = ("Trusted base: the Go toolchain; SPEC-NOTES.md as a faithful transcription of the 24 May 2023 URL Standard "
               "(its executable form, the reference model, is re-validated against the frozen WPT vectors before every run and the run "
               "stops as BROKEN-CHECK if it disagrees); the UTS #46 mapping of non-ASCII/xn-- labels taken as given from the implementation. "
               "Held = held on the executions listed in the evidence, nothing more.")
TRUST_REL = ("Trusted base: the Go toolchain and the relation itself (no model of the implementation is involved). "
             "Held = held on the executions listed in the evidence, nothing more.")

CHECKS = {}

def check(pid, technique, text, note, design):
    CHECKS[pid] = dict(technique=technique, text=text, note=note, design=design)

check("C01", "differential runtime monitor vs executable reference model (bounded-exhaustive short strings + generated/mutated inputs x bases)",
      "Runs the real parser on every string of length <= 5 (quick) / 6 (thorough) over a 12-symbol structural alphabet against 5 bases, and on "
      "millions of corpus/grammar/mutated (input, base) pairs through all three entry points, comparing success, Href and the nine getters with an independent transcription "
      "of the standard after every call. Exploration: a sample of an infinite input space with an exhaustive small-string core.",
      TRUST_MODEL, "DESIGN.md §5 C01, §3")
check("C02", "crash/termination monitor: recover() + hook-enforced logical step budget + RLIMIT_CPU watchdog with single-case confirmation, over option configurations x hostile histories",
      "Every public call (parse, resolve, nine setters, SearchParams operations, Clone, Canonicalize) runs under recover() and a step budget counted by the verif hooks inside the parser loop and the "
      "code-point cursor; a worker that dies or burns its CPU limit is attributed to the exact case through an mmap'ed crash buffer and re-run alone. Quick samples option masks, thorough "
      "enumerates all 2^14 on/off combinations of the 10 switches + 4 hostile argument options, plus sampled full-space configurations and the four profiles. 'Always terminates' is restated as bounded progress.",
      "Trusted base: the Go toolchain and runtime (its bounds/nil checks turn memory errors into the panics this monitor catches); the hooks only count. " + "Held = held on the executions listed in the evidence.", "DESIGN.md §5 C02, §2.2, §2.4")
check("C03", "fixed-point runtime monitor on every reachable state (parse + after every setter step), exemption decided by the reference model",
      "Re-parses the serialization of every URL state reached by parsing and by setter histories and compares Href and the nine getters; a state is exempt only if the reference model is in the same "
      "state and the standard's own algorithms do not round-trip there. Open finding KF-A (ACE label emitted by the STD3 fallback) is recognised by a narrow classifier; any other failure is a violation.",
      TRUST_MODEL, "DESIGN.md §5 C03")
check("C04", "invariant monitor at every quiescent point (after every API call) of parse/setter/resolve histories",
      "Asserts the structural invariants of the property (scheme grammar, host/path/opaque coherence, credentials/port guards, canonical non-default port, printable ASCII, percent-encode-set and "
      "forbidden-code-point freedom per component, Href composition from the getters, Host/Hostname/Port, Href(true)) on a snapshot of the getters (read in a per-case order) after every step; the composition clauses also under sampled parser configurations (incl. host hooks that read the URL) and after SetSearchParams with parameters of another parser's URL.",
      TRUST_REL + " Encode sets and forbidden sets as transcribed in SPEC-NOTES.md §A.", "DESIGN.md §5 C04")
check("C05", "history + executable model: setter sequences applied to implementation and reference model, compared after every step; pairwise-exhaustive block",
      "Applies sequences of the nine setters to the implementation and to the reference model's setter algorithms, carrying the model state along and comparing Href and all getters after every step, "
      "so a divergence is attributed to the first differing call; some cases read nothing (or one getter only) between the steps, some re-set a component to its current value in another spelling, some use giant values. A block of all ordered pairs of (setter, value) over curated pools on 30 start URLs is sampled (quick) or enumerated completely (thorough).",
      TRUST_MODEL, "DESIGN.md §5 C05")
check("C06", "relational (metamorphic) monitor: six resolution laws checked on generated (base, reference) pairs",
      "Checks the laws the property lists (three entry points agree; serialization resolves to itself against any base; empty, '#f' and '?q' references; scheme inheritance; opaque bases) as relations "
      "between calls of the real code, with no model involved. L2 inherits the open finding KF-A through the same classifier.",
      TRUST_REL, "DESIGN.md §5 C06")
check("C07", "differential monitor vs reference model plus an independent math/big oracle, bounded-exhaustive short hosts + generated dotted forms",
      "Every host string of length <= 5/6 over '0 1 7 8 9 a f x X . + - g' in the six special schemes and as opaque host, plus generated dotted forms with radix mixes and boundary values (also "
      "percent-encoded and fullwidth), compared with the model and with a separately written property-level oracle (ends-in-a-number, value of the parts, four octets).",
      TRUST_MODEL, "DESIGN.md §5 C07")
check("C08", "differential monitor vs reference model: exhaustive zero-mask grid for the compression rule, structural enumeration of bracket texts and arrangements, value/round-trip checks",
      "All 256 zero/non-zero masks x 6 fillings through IPv6Addr.String() and through parsing (exhaustive for 'first longest run'), generated bracket texts and every bracket arrangement in special and "
      "non-special URLs against the model; canonical text must denote the same 128-bit value and re-parse to itself.",
      TRUST_MODEL, "DESIGN.md §5 C08")
check("C09", "metamorphic runtime monitor: two spellings (ASCII case, whole-code-point percent-encoding) of one decoded host must give the same result",
      "Generates decoded hosts from ASCII and Unicode pools and the IdnaTestV2/toascii inputs, spells each twice and requires equal hostnames (or both failing), ASCII-lowercase forbidden-free results, "
      "the exact lowercased form for pure-ASCII non-ACE hosts (also under identity host hooks), and the empty host for every spelling of localhost in file URLs - through parsing, the host setters and a scheme-relative reference. No Unicode mapping is demanded.",
      TRUST_REL, "DESIGN.md §5 C09")
check("C10", "exhaustive membership comparison (0x110000 code points x 6 sets) + copy-on-derive monitor with table fingerprint hook + codec-law monitor on strings",
      "Set membership is a finite table and is compared completely on every run; Set/Clear chains must leave the parent (membership profile and fingerprint) untouched; encode/decode laws are checked "
      "on generated strings by recomputing the exact expected encoding from the predicate.",
      "Trusted base: the Go toolchain; the six predicates of SPEC-NOTES.md §A as the standard's sets. Membership half is exhaustive; string laws are exploration.", "DESIGN.md §5 C10")
check("C11", "history + executable model: SearchParams operations vs a 30-line sequential list model, compared after every operation; urlencoded codec round trip",
      "Initialises SearchParams from generated queries and applies operation histories to the implementation and to the list model; pair sequence, Get/GetAll/Has and the serialize->parse round trip are "
      "compared after every step. The round-trip failures of the open finding KF-B are recognised only when the list read back is exactly what the known serializer predicts.",
      "Trusted base: the Go toolchain; the urlencoded parser and list semantics of SPEC-NOTES.md §E. Held = held on the executions listed in the evidence.", "DESIGN.md §5 C11")
check("C12", "invariant monitor over interleavings of SearchParams mutations, SetSearch and other setters, with several handles per URL",
      "After every SearchParams mutation Query/Search/Href must equal the handle's serialization; after SetSearch every handle (also ones fetched earlier) must equal the urlencoded parse of the new "
      "query; other setters must disturb neither side. Handles are read without mutating (String/GetAll/Get/Has) in a per-case order, a third of the cases read nothing before the last step; start URLs include clones and resolution results of URLs whose parameters were fetched before; steps include mutation through Iterate's pair pointers, from inside the callback, and a callback that panics.",
      TRUST_REL + " urlencoded parser of SPEC-NOTES.md §E.", "DESIGN.md §5 C12")
check("C13", "two-sided isolation monitor with an independently constructed control twin (resolve and Clone pairs, operation sequences on either side)",
      "Operations are applied to one of {base, result} / {original, clone}; the untouched side must keep every getter and its parameter list, and the operated side must equal a twin built from a "
      "fresh parse of the same strings and the same operations, which by construction shares nothing; a clone must also behave like an independent original, a resolution result like a fresh parse of its serialization, under the same later operations; in some cases the untouched side is first read only after all operations. Behavioural verdict only.",
      TRUST_REL, "DESIGN.md §5 C13")
check("C14", "Go race detector (-race build) over barrier-released goroutine rounds on fresh shared objects + result equality with sequential twin + fingerprint hooks",
      "The one compiler sanitizer that applies: 64 (quick) / 256 (thorough) short-lived processes, each starting with cold rounds (first use of the library happens concurrently; fingerprints taken before), then rounds of 2-16 "
      "goroutines that use shared parsers, profiles and a freshly parsed shared base URL (getters, Clone, resolution, mutation of the results they own); race reports are counted "
      "from the log and de-duplicated by stack; every concurrent result must equal the sequential one; table/parser-option/profile fingerprints and the base snapshot must be unchanged. One process in sixteen adds a soak round on the long-lived shared objects "
      "(24 000 / 120 000 distinct names from 16 goroutines, early names again, link extraction against per-goroutine bases, values obtained before must be unchanged after). The evidence lists which operation pairs were actually in flight together.",
      "Trusted base: the Go race detector (sees only races on executed paths within its shadow window) and toolchain. Counting hooks are disabled in this build (plain variables by design).", "DESIGN.md §5 C14")
check("C15", "five-configuration relational monitor (default / reporting / fail-on-validation-error / both in either order) + error classification against the constants of package errors",
      "Parses every generated (input, base) under the diagnostic configurations and checks the relations of the property between the runs, the documented type and failure flag of every returned "
      "error and the non-fatal flag of every recorded entry; reporting must also be neutral when added to sampled parser/canonicalizer configurations, also after every step of a setter history on both URLs (rejected values, the same text given to several setters). The documented set is read from the constant declarations of /repo/errors/*.go at run time.",
      TRUST_REL, "DESIGN.md §5 C15")
check("C16", "per-clause differential monitors between parsers built from different option lists; parameterised reference model for replaced encode sets and added special schemes",
      "One sub-check per clause of the property: no-option equivalence, remove-* == setters with \"\" (model and implementation oracles), sort-query postconditions, default-scheme retry, conservative "
      "extension of six relaxing options under over-approximated triggers (alone and combined), replaced sets / added schemes vs the model with the same table, collapse and skip-equals postconditions. "
      "KF-B3 (sort re-serializes with the known serializer) is recognised by exact prediction.",
      TRUST_MODEL, "DESIGN.md §5 C16")
check("C17", "idempotence (fixed-point) runtime monitor over 98 option-composed profiles on all strings and GSB/Semantic on the ordinary-web-URL grammar",
      "Canonicalizes, canonicalizes the result again and compares (web grammar incl. long tokens up to 4 100 characters, nesting up to 14 levels, empty parameter names). Non-idempotence caused by the open findings (KF-A host, KF-B2 query re-serialization predicted exactly, KF-C opaque host decoding) "
      "is recognised by classifiers over the witness; anything else is a violation.",
      TRUST_REL, "DESIGN.md §5 C17")
check("C18", "metamorphic runtime monitor: two independently varied spellings of one abstract ordinary web URL must canonicalize to the same string",
      "Generates abstract URLs of the property's grammar and spells each twice with the listed variations (all of them for profiles with repeated decoding, the standard-normalised subset for every "
      "profile incl. the 96 compositions) and requires equal canonical strings.",
      TRUST_REL, "DESIGN.md §5 C18")
check("C19", "invariant monitor on derived accessors after every step of parse/setter/resolve/clone/SearchParams histories (incl. setters discovered by reflection)",
      "IsIPv4, IsIPv6, DecodedPort, Protocol/Scheme, Search/Query, Hash/Fragment, OpaquePath and IsSpecialScheme are recomputed from the primary components and the serialization and compared after every step - also for parsers with custom special-scheme tables (against that table) and under sampled parser configurations.",
      TRUST_REL, "DESIGN.md §5 C19")
check("C20", "resource monitor: fitted growth exponent of allocated bytes (MemStats, GC off), hook-counted parser work and thread CPU time over repetition families",
      "For 131 repetition families (one and two long components; non-ASCII and invalid bytes in every component; families under the relaxing options and under reporting; every setter on a reporting-mode URL; repeated long tokens up to 1 MiB) and n = 2^10..2^14 (2^18 thorough) the log-log slope of deterministic cost measures (allocated bytes, parser steps + cursor moves) must stay below 1.35; thread CPU time "
      "only confirms (slope > 1.5, > 50 ms, twice; a suspicious slope below 50 ms is followed to inputs 4x and 16x longer first), otherwise inconclusive. Wall-clock time is never used.",
      "Trusted base: Go runtime memory statistics and the counting hooks. Growth beyond the measured sizes or for unlisted fragments is out of reach.", "DESIGN.md §5 C20")

NOT_BUILT = "check not built yet (work in progress; see DESIGN.md §5)"

def main():
    props = [json.loads(l) for l in open(os.path.join(ROOT, "properties.jsonl"))]
    checks, na = [], []
    for p in props:
        pid = p["id"]
        c = CHECKS.get(pid)
        if c is None:
            na.append({"property_id": pid, "reason": NOT_BUILT})
            continue
        checks.append({
            "property_id": pid,
            "quick_cmd": f"./run.sh {pid} quick",
            "thorough_cmd": f"./run.sh {pid} thorough",
            "evidence_file": f"evidence/{pid}.json",
            "replay_cmd_template": f"./run.sh {pid} --replay {{path}}",
            "engine": "vcheck",
            "level_claimed": {"category": "exploration", "text": c["text"], "design_ref": c["design"]},
            "level_note": c["note"],
            "technique": c["technique"],
        })
    m = {
        "version": 1,
        "setup_cmd": "./setup.sh",
        "hooks": {
            "guard": "verif",
            "enable": "go build -tags verif (run.sh builds harness/cmd/vcheck with the tag; the harness module replaces github.com/nlnwa/whatwg-url by /repo)",
            "baseline_off_cmd": "cd /repo && GOFLAGS=-mod=mod GOPROXY=off GOSUMDB=off go test -vet=off -count=1 ./...",
            "source_commits": hook_commits(),
            "add_only": True,
        },
        "engines": [{
            "name": "vcheck", "path": "harness/cmd/vcheck",
            "serves_properties": [c["property_id"] for c in checks],
            "kind_free_text": "Go driver + one worker process per shard; monitors (differential vs reference model, invariant, metamorphic, resource, race detector) observe the real library built from /repo's working tree with -tags verif",
        }],
        "checks": checks,
        "notes": "Technique family: runtime monitoring and sanitizers. See DESIGN.md. Exit codes: 0 held on what was observed, 1 VIOLATION, 2 BROKEN-CHECK (oracle/observation broken; accuses nobody).",
        "not_applicable": na,
    }
    json.dump(m, open(os.path.join(ROOT, "MANIFEST.json"), "w"), indent=1)
    print("claimed:", [c["property_id"] for c in checks])

if __name__ == "__main__":
    main()
