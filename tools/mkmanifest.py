#!/usr/bin/env python3
"""Regenerates /verif/MANIFEST.json from the table below (one entry per claimed property)."""
import json, subprocess, sys, os

ROOT = os.path.dirname(os.path.dirname(os.path.abspath(__file__)))

def hook_commits():
    out = subprocess.run(["git", "-C", "/repo", "log", "--format=%H %s"], capture_output=True, text=True).stdout
    return [l.split()[0] for l in out.splitlines() if " verif hooks" in l or l.split(" ", 1)[1].startswith("verif hook")]

TRUST_MODEL = ("Trusted base: the Go toolchain; SPEC-NOTES.md as a faithful transcription of the 24 May 2023 URL Standard "
               "(its executable form, the reference model, is re-validated against the frozen WPT vectors before every run and the run "
               "stops as BROKEN-CHECK if it disagrees); the UTS #46 mapping of non-ASCII/xn-- labels taken as given from the implementation. "
               "Held = held on the executions listed in the evidence, nothing more.")
TRUST_REL = ("Trusted base: the Go toolchain and the relation itself (no model of the implementation is involved). "
             "Held = held on the executions listed in the evidence, nothing more.")

CHECKS = {}

def check(pid, technique, text, note, design):
    CHECKS[pid] = dict(technique=technique, text=text, note=note, design=design)

check("C01", "differential runtime monitor vs executable reference model (bounded-exhaustive short strings + generated/mutated inputs x bases)",
      "Runs the real parser on every string of length <= 5 (quick) / 6 (thorough) over a 12-symbol structural alphabet against 5 bases, and on "
      "millions of corpus/grammar/mutated (input, base) pairs, comparing success, Href and the nine getters with an independent transcription "
      "of the standard after every call. Exploration: a sample of an infinite input space with an exhaustive small-string core.",
      TRUST_MODEL, "DESIGN.md §5 C01, §3")

NOT_BUILT = "check not built yet (work in progress; see DESIGN.md §5)"

def main():
    props = [json.loads(l) for l in open(os.path.join(ROOT, "properties.jsonl"))]
    checks, na = [], []
    for p in props:
        pid = p["id"]
        c = CHECKS.get(pid)
        if c is None:
            na.append({"property_id": pid, "reason": NOT_BUILT})
            continue
        checks.append({
            "property_id": pid,
            "quick_cmd": f"./run.sh {pid} quick",
            "thorough_cmd": f"./run.sh {pid} thorough",
            "evidence_file": f"evidence/{pid}.json",
            "replay_cmd_template": f"./run.sh {pid} --replay {{path}}",
            "engine": "vcheck",
            "level_claimed": {"category": "exploration", "text": c["text"], "design_ref": c["design"]},
            "level_note": c["note"],
            "technique": c["technique"],
        })
    m = {
        "version": 1,
        "setup_cmd": "./setup.sh",
        "hooks": {
            "guard": "verif",
            "enable": "go build -tags verif (run.sh builds harness/cmd/vcheck with the tag; the harness module replaces github.com/nlnwa/whatwg-url by /repo)",
            "baseline_off_cmd": "cd /repo && GOFLAGS=-mod=mod GOPROXY=off GOSUMDB=off go test -vet=off -count=1 ./...",
            "source_commits": hook_commits(),
            "add_only": True,
        },
        "engines": [{
            "name": "vcheck", "path": "harness/cmd/vcheck",
            "serves_properties": [c["property_id"] for c in checks],
            "kind_free_text": "Go driver + one worker process per shard; monitors (differential vs reference model, invariant, metamorphic, resource, race detector) observe the real library built from /repo's working tree with -tags verif",
        }],
        "checks": checks,
        "notes": "Technique family: runtime monitoring and sanitizers. See DESIGN.md. Exit codes: 0 held on what was observed, 1 VIOLATION, 2 BROKEN-CHECK (oracle/observation broken; accuses nobody).",
        "not_applicable": na,
    }
    json.dump(m, open(os.path.join(ROOT, "MANIFEST.json"), "w"), indent=1)
    print("claimed:", [c["property_id"] for c in checks])

if __name__ == "__main__":
    main()
