#!/bin/bash
# seed_confirm.sh <name> <patch.diff> <demo_test.go> <url|canonicalizer> [-race]
# Confirms a seeded change in a scratch worktree: it applies, the repository's own suite
# still passes with it, the demonstration fails with it and passes without it.
set -u
export GOFLAGS=-mod=mod GOPROXY=off GOSUMDB=off GOTOOLCHAIN=local
name="$1"; patch=$(realpath "$2"); demo=$(realpath "$3"); dir="$4"; race="${5:-}"
wt="/tmp/scratch/confirm-$name"
git -C /repo worktree remove --force "$wt" >/dev/null 2>&1
git -C /repo worktree add -q --detach "$wt" HEAD || exit 3
res="applies=no"
if git -C "$wt" apply "$patch"; then
  res="applies=yes"
  if (cd "$wt" && go build ./... && go test -vet=off -count=1 ./... >/tmp/scratch/confirm-$name.suite 2>&1); then res="$res suite_with_change=pass"; else res="$res suite_with_change=FAIL"; fi
  cp "$demo" "$wt/$dir/zz_seed_demo_test.go"
  if (cd "$wt" && go test $race -vet=off -count=1 -run 'TestDemo' ./$dir/ >/tmp/scratch/confirm-$name.with 2>&1); then res="$res demo_with_change=PASS(!)"; else res="$res demo_with_change=fails"; fi
  git -C "$wt" apply -R "$patch"
  if (cd "$wt" && go test $race -vet=off -count=1 -run 'TestDemo' ./$dir/ >/tmp/scratch/confirm-$name.without 2>&1); then res="$res demo_without_change=passes"; else res="$res demo_without_change=FAILS(!)"; fi
fi
echo "CONFIRM $name: $res"
git -C /repo worktree remove --force "$wt"
