#!/bin/bash
# campaign.sh <name> <patch-file | -R commit> [tier] [ids...]
# Applies a change to a scratch worktree of /repo (never to /repo itself), runs the checks
# against it (VERIF_REPO) and prints which checks fire.  The worktree, its build output and
# the scratch output directory are removed afterwards.
set -u
name="$1"; shift
rev=""
if [ "$1" = "-R" ]; then rev="-R"; shift; fi
what="$1"; shift
tier="${1:-quick}"; [ $# -gt 0 ] && shift
ids="${@:-C01 C02 C03 C04 C05 C06 C07 C08 C09 C10 C11 C12 C13 C14 C15 C16 C17 C18 C19 C20}"
wt="${CAMP_WT:-/tmp/scratch/camp-wt}"   # fixed path per campaign stream: the Go build cache is reused across campaigns
out="${CAMP_OUT:-/tmp/scratch/camp-out}"
rm -rf "$out"; git -C /repo worktree remove --force "$wt" >/dev/null 2>&1
git -C /repo worktree add -q --detach "$wt" HEAD || exit 3
if [ -f "$what" ]; then p=$(realpath "$what"); else p=$(mktemp); git -C /repo show "$what" > "$p"; fi
if ! git -C "$wt" apply $rev "$p"; then echo "campaign $name: patch does not apply"; git -C /repo worktree remove --force "$wt"; exit 3; fi
fired=""; broken=""
for id in $ids; do
  o=$(cd /verif && VERIF_REPO="$wt" VERIF_OUT="$out" ./run.sh $id $tier 2>&1); rc=$?
  if [ $rc -eq 1 ]; then
    fired="$fired $id"
    echo "  $id rc=$rc: $(echo "$o" | grep -E '^  violated' | head -3 | cut -c1-260 | tr '\n' '|')"
  elif [ $rc -ne 0 ]; then
    broken="$broken $id"
    echo "  $id rc=$rc: $(echo "$o" | grep -E '^BROKEN|error|cannot' | head -3 | cut -c1-260 | tr '\n' '|')"
  fi
done
echo "CAMPAIGN $name ($tier) fired:${fired:- none}${broken:+ BROKEN:$broken}"
git -C /repo worktree remove --force "$wt"
tag=$(echo "$wt" | md5sum | cut -c1-8)
rm -rf "$out" /verif/bin/vcheck-$tag* /verif/bin/vcheck-race-$tag* 2>/dev/null
