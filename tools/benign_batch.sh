#!/bin/bash
# benign_batch.sh <out-file> <Axx> ...   evaluates the BENIGN changes (behaviour-preserving refactorings,
# optimisations, default-off features written by sub-agents) found in $MUTDIR/<Axx>-out/m?.diff:
# the change must apply, build with and without the verif tag, keep the repository's suite green
# (also under -race) - and then every quick check must stay silent on it (exit 0).
out="$1"; shift
export GOFLAGS=-mod=mod GOPROXY=off GOSUMDB=off GOTOOLCHAIN=local
snap=/tmp/scratch/harness-snap-$$
mkdir -p $snap; rsync -a --delete ${HARNESS_SRC:-/verif/harness}/ $snap/
export VERIF_HARNESS=$snap
for a in "$@"; do
  for n in 1 2 3; do
    d=${MUTDIR:-/tmp/mut5}/$a-out
    [ -f $d/m$n.diff ] || continue
    name=$a-m$n
    echo "=== $name" >> $out
    wt=/tmp/scratch/benign-confirm
    git -C /repo worktree remove --force $wt >/dev/null 2>&1
    git -C /repo worktree add -q --detach $wt HEAD
    res="applies=no"
    if git -C $wt apply $d/m$n.diff 2>>$out; then
      res="applies=yes"
      (cd $wt && go build ./... && go build -tags verif ./...) >/dev/null 2>&1 && res="$res builds=yes" || res="$res builds=NO"
      (cd $wt && go test -vet=off -count=1 ./... ) >/dev/null 2>&1 && res="$res suite=pass" || res="$res suite=FAIL"
      (cd $wt && go test -race -vet=off -count=1 ./url/ ./canonicalizer/ ) >/dev/null 2>&1 && res="$res suite_race=pass" || res="$res suite_race=FAIL"
    fi
    git -C /repo worktree remove --force $wt >/dev/null 2>&1
    echo "CONFIRM $name: $res" >> $out
    case "$res" in *"builds=yes suite=pass suite_race=pass"*) /verif/tools/campaign.sh $name $d/m$n.diff quick ${BENIGN_IDS:-} >> $out 2>&1 ;; esac
  done
done
rm -rf $snap
echo "BATCH DONE" >> $out
