#!/usr/bin/env python3
"""keep_seeded.py <batch-log> <mut-dir> <wave-label>
Stores the confirmed seeded changes of a batch under /verif/seeded/<name>/ :
patch.diff, demo_test.go, notes.md (the author's description) and meta.json."""
import sys, re, os, json, shutil
log, mutdir, wave = sys.argv[1], sys.argv[2], sys.argv[3]
txt = open(log).read()
blocks = re.split(r'^=== ', txt, flags=re.M)[1:]
kept = 0
for b in blocks:
    name = b.split('\n', 1)[0].strip()          # e.g. C05-m2
    m = re.search(r'^CONFIRM \S+: (.*)$', b, re.M)
    c = re.search(r'^CAMPAIGN \S+ \((\w+)\) fired:(.*)$', b, re.M)
    if not m or not c:
        continue
    conf = m.group(1)
    ok = ('applies=yes' in conf and 'suite_with_change=pass' in conf and 'demo_with_change=fails' in conf and 'demo_without_change=passes' in conf)
    pid, mn = name.split('-')
    src = os.path.join(mutdir, pid + '-out')
    if not ok:
        print('NOT KEPT', name, conf)
        continue
    fired = c.group(2).split(' BROKEN:')[0].split()
    if fired == ['none']:
        fired = []
    dst = f'/verif/seeded/{wave}-{name}'
    os.makedirs(dst, exist_ok=True)
    shutil.copy(os.path.join(src, mn + '.diff'), os.path.join(dst, 'patch.diff'))
    demo = os.path.join(src, mn + '_demo_test.go')
    shutil.copy(demo, os.path.join(dst, 'demo_test.go'))
    notes = open(os.path.join(src, mn + '.md')).read()
    open(os.path.join(dst, 'notes.md'), 'w').write(notes)
    pkg = 'canonicalizer' if re.search(r'^package canonicalizer', open(demo).read(), re.M) else 'url'
    first = next((l.strip('# ').strip() for l in notes.splitlines() if l.strip()), '')
    meta = {
        'name': f'{wave}-{name}',
        'breaks_property': pid,
        'origin': f'independent sub-agent ({wave}), given only the text of {pid} and a scratch worktree',
        'summary': first[:300],
        'needs_to_manifest': 'see notes.md (author\'s description: input shape / history / schedule / configuration needed)',
        'demo': {'file': 'demo_test.go', 'copy_to': pkg + '/', 'run': f'go test -vet=off -count=1 -run TestDemo ./{pkg}/' + (' (with -race)' if 'race' in notes.lower() and pid in ('C14',) else '')},
        'confirmed_in_scratch_worktree': {'tool': 'tools/seed_confirm.sh', 'result': conf},
        'checks_run': {'tool': 'tools/campaign.sh (all 20 quick checks, VERIF_SEED=1, scratch worktree of /repo HEAD + patch)', 'fired': fired,
                       'home_property_detected': pid in fired, 'detected': len(fired) > 0},
    }
    json.dump(meta, open(os.path.join(dst, 'meta.json'), 'w'), indent=1)
    kept += 1
    print('kept', dst, 'fired:', ' '.join(fired) or 'NONE')
print('kept', kept)
