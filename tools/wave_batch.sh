#!/bin/bash
# wave_batch.sh <out-file> <mut-dir> <Cxx> ...   confirms the sub-agent changes found in <mut-dir>/<Cxx>-out and runs
# the check of the change's own property against each; only when that stays silent, all twenty quick checks.
# (Cheaper than mutant_batch2.sh: a change that its home check catches is not run against the other nineteen.)
out="$1"; mutdir="$2"; shift 2
snap=/tmp/scratch/harness-snap-$$
mkdir -p $snap; rsync -a --delete ${HARNESS_SRC:-/verif/harness}/ $snap/
export VERIF_HARNESS=$snap
for pid in "$@"; do
  for n in 1 2; do
    d=$mutdir/$pid-out
    [ -f $d/m$n.diff ] && [ -f $d/m${n}_demo_test.go ] && [ -f $d/m$n.md ] || continue
    demo=$d/m${n}_demo_test.go
    dir=url; grep -q "^package canonicalizer" $demo && dir=canonicalizer
    race=""; grep -q -- "-race" $d/m$n.md && race="-race"
    name=$pid-m$n
    echo "=== $name" >> $out
    /verif/tools/seed_confirm.sh $name $d/m$n.diff $demo $dir $race >> $out 2>&1
    r=$(/verif/tools/campaign.sh $name $d/m$n.diff quick $pid 2>&1)
    if echo "$r" | grep -q "fired: none"; then
      echo "  (home check $pid silent; running all twenty)" >> $out
      /verif/tools/campaign.sh $name $d/m$n.diff quick >> $out 2>&1
    else
      echo "$r" >> $out
    fi
  done
done
rm -rf $snap
echo "BATCH DONE" >> $out
