#!/bin/bash
# targeted_batch.sh <blind-log> <out-file>    re-runs, with the CURRENT harness (frozen copy), for every
# change of a wave: the checks that fired in the blind run, the check of the change's own property, and
# the checks named in $EXTRA_<name> (e.g. EXTRA_C06_m1="C12").  Cheaper than all twenty checks per change.
blind="$1"; out="$2"
snap=/tmp/scratch/harness-snap-$$
mkdir -p $snap; rsync -a --delete ${HARNESS_SRC:-/verif/harness}/ $snap/
export VERIF_HARNESS=$snap
grep "^CAMPAIGN" "$blind" | while read -r _ name _ _ rest; do
  pid=${name%-m*}; n=${name#*-m}
  fired=$(echo "$rest" | sed 's/BROKEN:.*//; s/none//')
  var="EXTRA_${pid}_m${n}"
  ids=$(echo "$pid $fired ${!var:-}" | tr ' ' '\n' | grep -E '^C[0-9]{2}$' | sort -u | tr '\n' ' ')
  echo "=== $name (checks run: $ids)" >> "$out"
  /verif/tools/campaign.sh $name ${MUTDIR:-/tmp/mut4}/$pid-out/m$n.diff quick $ids >> "$out" 2>&1
done
rm -rf $snap
echo "BATCH DONE" >> "$out"
