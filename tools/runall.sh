#!/bin/bash
# runall.sh quick|thorough [ids...]  — runs the checks one after the other, prints one line per check
cd "$(dirname "$0")/.."
tier=${1:-quick}; shift
ids=${@:-C01 C02 C03 C04 C05 C06 C07 C08 C09 C10 C11 C12 C13 C14 C15 C16 C17 C18 C19 C20}
for id in $ids; do
  s=$(date +%s.%N)
  out=$(./run.sh $id $tier 2>&1); rc=$?
  e=$(date +%s.%N)
  printf "%s rc=%d %.1fs  %s\n" $id $rc $(echo "$e - $s" | bc) "$(echo "$out" | grep -c '^VIOLATION') violations, $(echo "$out" | grep -c '^KNOWN-FINDING') known, $(echo "$out" | grep -c '^BROKEN-CHECK') broken"
  echo "$out" | grep -E "^  violated|^BROKEN|INCONCLUSIVE" | cut -c1-300 | head -5
done
