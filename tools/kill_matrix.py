#!/usr/bin/env python3
"""kill_matrix.py <log>...  prints a markdown table: change | checks that fired (quick tier)."""
import sys, re
for log in sys.argv[1:]:
    for m in re.finditer(r'^CAMPAIGN (\S+) \((\w+)\) fired:(.*)$', open(log).read(), re.M):
        name, tier, fired = m.group(1), m.group(2), m.group(3).strip()
        print(f"| {name} | {fired} |")
