#!/bin/bash
# wave_queue.sh <stream> <nstreams> <mut-dir> <log-dir> <Cxx>...   polls <mut-dir>/<Cxx>-out for finished sub-agent
# changes (m<n>.diff + demo + md, untouched for a minute) and runs wave_batch.sh's procedure on each exactly once.
# Stops when <log-dir>/STOP exists or every change of its share has been processed and <log-dir>/CLOSE exists.
k="$1"; ns="$2"; mutdir="$3"; logdir="$4"; shift 4
mkdir -p "$logdir/done"
export CAMP_WT=/tmp/scratch/q${QTAG:-}$k-wt CAMP_OUT=/tmp/scratch/q${QTAG:-}$k-out
out="$logdir/stream$k.log"
i=0; mine=""
for pid in "$@"; do [ $((i % ns)) -eq "$k" ] && mine="$mine $pid"; i=$((i+1)); done
while [ ! -f "$logdir/STOP" ]; do
  did=0
  for pid in $mine; do for n in 1 2; do
    d=$mutdir/$pid-out; name=$pid-m$n
    [ -f "$logdir/done/$name" ] && continue
    [ -f $d/m$n.diff ] && [ -f $d/m${n}_demo_test.go ] && [ -f $d/m$n.md ] || continue
    [ -z "$(find $d/m$n.diff $d/m${n}_demo_test.go $d/m$n.md -mmin -1)" ] || continue
    touch "$logdir/done/$name"; did=1
    demo=$d/m${n}_demo_test.go
    dir=url; grep -q "^package canonicalizer" $demo && dir=canonicalizer
    race=""; grep -q -- "-race" $d/m$n.md && race="-race"
    tmp=$(mktemp)
    echo "=== $name" >> $tmp
    /verif/tools/seed_confirm.sh $name $d/m$n.diff $demo $dir $race >> $tmp 2>&1
    r=$(/verif/tools/campaign.sh $name $d/m$n.diff quick $pid 2>&1)
    if echo "$r" | grep -q "fired: none"; then
      echo "  (home check $pid silent; running all twenty)" >> $tmp
      /verif/tools/campaign.sh $name $d/m$n.diff quick >> $tmp 2>&1
    else
      echo "$r" >> $tmp
    fi
    cat $tmp >> "$out"; rm -f $tmp
  done; done
  [ $did -eq 0 ] && [ -f "$logdir/CLOSE" ] && break
  [ $did -eq 0 ] && sleep 20
done
echo "STREAM $k DONE" >> "$out"
