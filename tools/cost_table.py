#!/usr/bin/env python3
"""cost_table.py <runall-quick.log> <runall-thorough.log>   prints DESIGN.md §10's table from measured wall times
(lines of tools/runall.sh: "<id> rc=<n> <seconds>s  ...")."""
import re, sys
BRIEF = {
 "C01": "differential vs `M`, W-small exhaustive + generated + giant", "C02": "crash / step-budget / CPU-watchdog monitor × option subsets",
 "C03": "fixed-point monitor + model-decided exemption", "C04": "invariant monitor over histories (+ composition under configurations)",
 "C05": "differential setter histories vs `M` + pairwise block", "C06": "relational laws", "C07": "exhaustive short hosts vs `M` + second oracle",
 "C08": "structural enumeration + 256 masks", "C09": "metamorphic spellings + routes", "C10": "exhaustive membership + codec laws",
 "C11": "list model + codec round trip", "C12": "sync invariant over interleavings", "C13": "two-sided isolation + control twins + behaviour",
 "C14": "race detector + result equality + fingerprints (race build)", "C15": "five-configuration relation", "C16": "per-option differential / metamorphic / vs parameterised `M`",
 "C17": "idempotence", "C18": "metamorphic equivalence", "C19": "accessor-coherence invariants", "C20": "growth exponents of alloc / steps / CPU"}
def read(p):
    d = {}
    for m in re.finditer(r'^(C\d\d) rc=(\d+) ([\d.]+)s', open(p).read(), re.M):
        d[m.group(1)] = (int(m.group(2)), float(m.group(3)))
    return d
q, t = read(sys.argv[1]), read(sys.argv[2])
def fmt(x):
    if x is None: return "—"
    rc, s = x
    return (f"{s:.0f} s" if s < 120 else f"{s/60:.1f} min") + ("" if rc == 0 else f" (rc={rc})")
print("| property | technique in brief | quick | thorough |\n|---|---|---|---|")
for k in sorted(BRIEF):
    print(f"| {k} | {BRIEF[k]} | {fmt(q.get(k))} | {fmt(t.get(k))} |")
tq = sum(v[1] for v in q.values()); tt = sum(v[1] for v in t.values())
print(f"| all | run one after the other | {tq/60:.1f} min | {tt/60:.1f} min |")
