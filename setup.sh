#!/bin/bash
# Run once after a fresh restore, offline: copies go.sum and warms the Go build cache.
# Nothing built here is needed later: every check rebuilds what it runs.
set -eu
cd "$(dirname "$0")"
export GOFLAGS=-mod=mod GOPROXY=off GOSUMDB=off GOTOOLCHAIN=local
mkdir -p bin evidence
cp -f /repo/go.sum harness/go.sum
(cd harness && go build -tags verif -o ../bin/vcheck ./cmd/vcheck)
(cd harness && go build -race -tags verif -o ../bin/vcheck-race ./cmd/vcheck)
echo "setup ok"
