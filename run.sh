#!/bin/bash
# run.sh <id> quick|thorough        run the check of one property against /repo's working tree
# run.sh <id> --replay <path>       re-execute one recorded case against the current tree
# Exit 0: held on everything explored; 1: VIOLATION line(s) printed; 2: BROKEN-CHECK.
#
# Development only: VERIF_REPO=<worktree> builds against a scratch worktree instead of /repo and
# VERIF_OUT=<dir> sends evidence/replays/scratch there (so committed evidence is not touched).
set -u
cd "$(dirname "$0")"
export VERIF_ROOT="$PWD"
export GOFLAGS=-mod=mod GOPROXY=off GOSUMDB=off GOTOOLCHAIN=local
id="${1:?property id}"
mode="${2:?quick|thorough|--replay}"
repo="${VERIF_REPO:-/repo}"
out="${VERIF_OUT:-$PWD}"
mkdir -p bin "$out/evidence"

hsrc="${VERIF_HARNESS:-$PWD/harness}"   # development only: a frozen copy of the harness sources
hdir="$hsrc"
tag=""
if [ "$repo" != "/repo" ]; then
  tag="-$(echo "$repo" | md5sum | cut -c1-8)"
  hdir="$out/.work/harness$tag"
  mkdir -p "$hdir"
  rsync -a --delete "$hsrc/" "$hdir/"
  (cd "$hdir" && go mod edit -replace "github.com/nlnwa/whatwg-url=$repo")
fi
cp -f "$repo/go.sum" "$hdir/go.sum"

race=""
# one binary per check id: concurrent invocations of different checks never write the same file
bin="$PWD/bin/vcheck$tag.$id"
if [ "$id" = "C14" ]; then
  race="-race"
  bin="$PWD/bin/vcheck-race$tag.$id"
fi
# Always rebuild: the replace directive points at the repository, so the library is recompiled
# from its current working tree (the build cache is keyed on file contents).
log="$out/.build.$id$tag.log"
if ! (cd "$hdir" && go build $race -tags verif -o "$bin" ./cmd/vcheck) >"$log" 2>&1; then
  cat "$log"
  echo "BROKEN-CHECK property=$id the harness does not build against the repository's working tree"
  rm -f "$log"
  exit 2
fi
rm -f "$log"

if [ "$mode" = "--replay" ]; then
  exec "$bin" replay "$id" "${3:?replay path}"
fi
exec "$bin" run "$id" "$mode"
