#!/bin/bash
# run.sh <id> quick|thorough        run the check of one property against /repo's working tree
# run.sh <id> --replay <path>       re-execute one recorded case against the current tree
# Exit 0: held on everything explored; 1: VIOLATION line(s) printed; 2: BROKEN-CHECK.
set -u
cd "$(dirname "$0")"
export VERIF_ROOT="$PWD"
export GOFLAGS=-mod=mod GOPROXY=off GOSUMDB=off GOTOOLCHAIN=local
id="${1:?property id}"
mode="${2:?quick|thorough|--replay}"
mkdir -p bin evidence
cp -f /repo/go.sum harness/go.sum

race=""
bin="bin/vcheck"
if [ "$id" = "C14" ]; then
  race="-race"
  bin="bin/vcheck-race"
fi
# Always rebuild: the replace directive points at /repo, so the library is recompiled from
# its current working tree (the build cache is keyed on file contents).
if ! (cd harness && go build $race -tags verif -o "../$bin" ./cmd/vcheck) >".build.$id.log" 2>&1; then
  cat ".build.$id.log"
  echo "BROKEN-CHECK property=$id the harness does not build against /repo's working tree"
  rm -f ".build.$id.log"
  exit 2
fi
rm -f ".build.$id.log"

if [ "$mode" = "--replay" ]; then
  exec "$bin" replay "$id" "${3:?replay path}"
fi
exec "$bin" run "$id" "$mode"
