package refmodel

import (
	"strconv"
	"strings"
)

// SPEC-NOTES §D: serializer, getters and setters of the URL API.

func (u *URL) PathString() string {
	if u.Opaque {
		if len(u.Path) == 0 {
			return ""
		}
		return u.Path[0]
	}
	var sb strings.Builder
	for _, s := range u.Path {
		sb.WriteByte('/')
		sb.WriteString(s)
	}
	return sb.String()
}

func (u *URL) Href(excludeFragment bool) string {
	var sb strings.Builder
	sb.WriteString(u.Scheme)
	sb.WriteByte(':')
	if u.Host != nil {
		sb.WriteString("//")
		if u.includesCredentials() {
			sb.WriteString(u.Username)
			if u.Password != "" {
				sb.WriteByte(':')
				sb.WriteString(u.Password)
			}
			sb.WriteByte('@')
		}
		sb.WriteString(*u.Host)
		if u.Port != nil {
			sb.WriteByte(':')
			sb.WriteString(strconv.Itoa(*u.Port))
		}
	}
	if u.Host == nil && !u.Opaque && len(u.Path) > 1 && u.Path[0] == "" {
		sb.WriteString("/.")
	}
	sb.WriteString(u.PathString())
	if u.Query != nil {
		sb.WriteByte('?')
		sb.WriteString(*u.Query)
	}
	if !excludeFragment && u.Fragment != nil {
		sb.WriteByte('#')
		sb.WriteString(*u.Fragment)
	}
	return sb.String()
}

func (u *URL) Protocol() string { return u.Scheme + ":" }
func (u *URL) HostGetter() string {
	if u.Host == nil {
		return ""
	}
	if u.Port == nil {
		return *u.Host
	}
	return *u.Host + ":" + strconv.Itoa(*u.Port)
}
func (u *URL) Hostname() string {
	if u.Host == nil {
		return ""
	}
	return *u.Host
}
func (u *URL) PortGetter() string {
	if u.Port == nil {
		return ""
	}
	return strconv.Itoa(*u.Port)
}
func (u *URL) Pathname() string { return u.PathString() }
func (u *URL) Search() string {
	if u.Query == nil || *u.Query == "" {
		return ""
	}
	return "?" + *u.Query
}
func (u *URL) Hash() string {
	if u.Fragment == nil || *u.Fragment == "" {
		return ""
	}
	return "#" + *u.Fragment
}

// Ten returns href plus the nine API getters in a fixed order.
func (u *URL) Ten() [10]string {
	return [10]string{u.Href(false), u.Protocol(), u.Username, u.Password, u.HostGetter(), u.Hostname(),
		u.PortGetter(), u.Pathname(), u.Search(), u.Hash()}
}

// TenNames names the entries of Ten.
var TenNames = [10]string{"href", "protocol", "username", "password", "host", "hostname", "port", "pathname", "search", "hash"}

func (u *URL) cannotHaveUsernamePasswordPort() bool {
	return u.Host == nil || *u.Host == "" || u.Scheme == "file"
}

func (u *URL) stripTrailingSpaces() {
	if !u.Opaque || u.Fragment != nil || u.Query != nil {
		return
	}
	u.Path[0] = strings.TrimRight(u.Path[0], " ")
}

func (c *Config) SetProtocol(u *URL, v string) {
	c.Basic([]rune(v+":"), nil, u, SchemeStart)
}

func (c *Config) SetUsername(u *URL, v string) {
	if u.cannotHaveUsernamePasswordPort() {
		return
	}
	u.Username = EncodeString(v, UserinfoSet)
}

func (c *Config) SetPassword(u *URL, v string) {
	if u.cannotHaveUsernamePasswordPort() {
		return
	}
	u.Password = EncodeString(v, UserinfoSet)
}

func (c *Config) SetHost(u *URL, v string) {
	if u.Opaque {
		return
	}
	c.Basic([]rune(v), nil, u, Host)
}

func (c *Config) SetHostname(u *URL, v string) {
	if u.Opaque {
		return
	}
	c.Basic([]rune(v), nil, u, Hostname)
}

func (c *Config) SetPort(u *URL, v string) {
	if u.cannotHaveUsernamePasswordPort() {
		return
	}
	if v == "" {
		u.Port = nil
		return
	}
	c.Basic([]rune(v), nil, u, Port)
}

func (c *Config) SetPathname(u *URL, v string) {
	if u.Opaque {
		return
	}
	u.Path = nil
	c.Basic([]rune(v), nil, u, PathStart)
}

func (c *Config) SetSearch(u *URL, v string) {
	if v == "" {
		u.Query = nil
		u.stripTrailingSpaces()
		return
	}
	v = strings.TrimPrefix(v, "?")
	u.Query = strp("")
	c.Basic([]rune(v), nil, u, Query)
}

func (c *Config) SetHash(u *URL, v string) {
	if v == "" {
		u.Fragment = nil
		u.stripTrailingSpaces()
		return
	}
	v = strings.TrimPrefix(v, "#")
	u.Fragment = strp("")
	c.Basic([]rune(v), nil, u, Fragment)
}

// Setter names in a fixed order (used by generators and monitors).
var SetterNames = []string{"protocol", "username", "password", "host", "hostname", "port", "pathname", "search", "hash"}

// ApplySetter applies the named setter.
func (c *Config) ApplySetter(u *URL, name, v string) {
	switch name {
	case "protocol":
		c.SetProtocol(u, v)
	case "username":
		c.SetUsername(u, v)
	case "password":
		c.SetPassword(u, v)
	case "host":
		c.SetHost(u, v)
	case "hostname":
		c.SetHostname(u, v)
	case "port":
		c.SetPort(u, v)
	case "pathname":
		c.SetPathname(u, v)
	case "search":
		c.SetSearch(u, v)
	case "hash":
		c.SetHash(u, v)
	default:
		panic("refmodel: unknown setter " + name)
	}
}
