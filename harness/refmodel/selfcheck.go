package refmodel

import (
	"encoding/json"
	"fmt"
	"os"
	"path/filepath"
)

// SelfCheck runs the model over the frozen WPT vectors (DESIGN.md §3.3).  It returns the
// number of vectors checked and an error describing the first disagreements, if any.
func SelfCheck(dir string, toASCII ToASCIIFunc) (int, error) {
	c := Default(toASCII)
	n := 0
	var bad []string
	note := func(f string, a ...any) {
		if len(bad) < 10 {
			bad = append(bad, fmt.Sprintf(f, a...))
		}
	}

	// urltestdata.json
	raw, err := os.ReadFile(filepath.Join(dir, "urltestdata.json"))
	if err != nil {
		return 0, err
	}
	var items []json.RawMessage
	if err := json.Unmarshal(raw, &items); err != nil {
		return 0, err
	}
	for _, it := range items {
		var v struct {
			Input    *string `json:"input"`
			Base     *string `json:"base"`
			Failure  bool    `json:"failure"`
			Href     string  `json:"href"`
			Protocol string  `json:"protocol"`
			Username string  `json:"username"`
			Password string  `json:"password"`
			Host     string  `json:"host"`
			Hostname string  `json:"hostname"`
			Port     string  `json:"port"`
			Pathname string  `json:"pathname"`
			Search   string  `json:"search"`
			Hash     string  `json:"hash"`
		}
		if json.Unmarshal(it, &v) != nil || v.Input == nil {
			continue
		}
		n++
		var base *URL
		if v.Base != nil {
			base = c.Parse(*v.Base, nil)
			if base == nil {
				if !v.Failure {
					note("urltestdata: base %q does not parse", *v.Base)
				}
				continue
			}
		}
		u := c.Parse(*v.Input, base)
		if v.Failure {
			if u != nil {
				note("urltestdata: %q (base %v) expected failure, model gives %q", *v.Input, deref(v.Base), u.Href(false))
			}
			continue
		}
		if u == nil {
			note("urltestdata: %q (base %v) expected %q, model fails", *v.Input, deref(v.Base), v.Href)
			continue
		}
		want := [10]string{v.Href, v.Protocol, v.Username, v.Password, v.Host, v.Hostname, v.Port, v.Pathname, v.Search, v.Hash}
		if got := u.Ten(); got != want {
			note("urltestdata: %q (base %v): want %q got %q", *v.Input, deref(v.Base), want, got)
		}
	}

	// setters_tests.json
	raw, err = os.ReadFile(filepath.Join(dir, "setters_tests.json"))
	if err != nil {
		return n, err
	}
	var setters map[string]json.RawMessage
	if err := json.Unmarshal(raw, &setters); err != nil {
		return n, err
	}
	for _, name := range SetterNames {
		var cases []struct {
			Href     string            `json:"href"`
			NewValue string            `json:"new_value"`
			Expected map[string]string `json:"expected"`
		}
		if err := json.Unmarshal(setters[name], &cases); err != nil {
			return n, fmt.Errorf("setters_tests.json[%s]: %v", name, err)
		}
		for _, tc := range cases {
			n++
			u := c.Parse(tc.Href, nil)
			if u == nil {
				note("setters: start %q does not parse", tc.Href)
				continue
			}
			c.ApplySetter(u, name, tc.NewValue)
			got := u.Ten()
			for k, want := range tc.Expected {
				for i, nm := range TenNames {
					if nm == k && got[i] != want {
						note("setters: %q.%s=%q: %s want %q got %q", tc.Href, name, tc.NewValue, k, want, got[i])
					}
				}
			}
		}
	}

	// toascii.json, fast-path inputs only (everything else is "given")
	raw, err = os.ReadFile(filepath.Join(dir, "toascii.json"))
	if err != nil {
		return n, err
	}
	var ta []json.RawMessage
	if err := json.Unmarshal(raw, &ta); err != nil {
		return n, err
	}
	for _, it := range ta {
		var v struct {
			Input  *string `json:"input"`
			Output *string `json:"output"`
		}
		if json.Unmarshal(it, &v) != nil || v.Input == nil || !FastPathDomain(*v.Input) {
			continue
		}
		n++
		u := c.Parse("https://"+*v.Input+"/x", nil)
		if v.Output == nil {
			if u != nil {
				note("toascii: %q expected failure, model gives %q", *v.Input, u.Hostname())
			}
		} else if u == nil || u.Hostname() != *v.Output {
			note("toascii: %q expected %q", *v.Input, *v.Output)
		}
	}

	if len(bad) > 0 {
		return n, fmt.Errorf("reference model disagrees with the WPT vectors: %v", bad)
	}
	return n, nil
}

func deref(s *string) string {
	if s == nil {
		return "<none>"
	}
	return *s
}
