package refmodel_test

import (
	"testing"

	"verif/given"
	"verif/refmodel"
)

func TestSelfCheck(t *testing.T) {
	n, err := refmodel.SelfCheck("../../testdata", given.ToASCII)
	t.Logf("vectors: %d", n)
	if err != nil {
		t.Fatal(err)
	}
}
