package refmodel

import (
	"bytes"
	"sort"
	"strings"
	"unicode/utf16"
)

// SPEC-NOTES §E: application/x-www-form-urlencoded and the URLSearchParams list.

type Pair struct{ Name, Value string }

// ParseURLEncoded is the urlencoded parser.  Names and values are returned as valid UTF-8
// (invalid bytes read as U+FFFD, one per byte: Go's scalar-value reading).
func ParseURLEncoded(input string) []Pair {
	var out []Pair
	for _, seq := range bytes.Split([]byte(input), []byte("&")) {
		if len(seq) == 0 {
			continue
		}
		var name, value []byte
		if i := bytes.IndexByte(seq, '='); i >= 0 {
			name, value = seq[:i], seq[i+1:]
		} else {
			name = seq
		}
		name = bytes.ReplaceAll(name, []byte("+"), []byte(" "))
		value = bytes.ReplaceAll(value, []byte("+"), []byte(" "))
		out = append(out, Pair{Scalar(string(PercentDecode(name))), Scalar(string(PercentDecode(value)))})
	}
	return out
}

// ParseURLEncodedRaw is ParseURLEncoded without the final UTF-8 decode: names and values keep
// the raw decoded bytes (what an implementation that works on Go strings stores).
func ParseURLEncodedRaw(input string) []Pair {
	var out []Pair
	for _, seq := range bytes.Split([]byte(input), []byte("&")) {
		if len(seq) == 0 {
			continue
		}
		var name, value []byte
		if i := bytes.IndexByte(seq, '='); i >= 0 {
			name, value = seq[:i], seq[i+1:]
		} else {
			name = seq
		}
		name = bytes.ReplaceAll(name, []byte("+"), []byte(" "))
		value = bytes.ReplaceAll(value, []byte("+"), []byte(" "))
		out = append(out, Pair{string(PercentDecode(name)), string(PercentDecode(value))})
	}
	return out
}

func urlencodedKeep(b byte) bool {
	return b == '*' || b == '-' || b == '.' || b == '_' ||
		(b >= '0' && b <= '9') || (b >= 'A' && b <= 'Z') || (b >= 'a' && b <= 'z')
}

func serializeBytes(s string) string {
	var sb strings.Builder
	for _, b := range []byte(Scalar(s)) {
		switch {
		case b == ' ':
			sb.WriteByte('+')
		case urlencodedKeep(b):
			sb.WriteByte(b)
		default:
			sb.WriteByte('%')
			sb.WriteByte(hexUpper[b>>4])
			sb.WriteByte(hexUpper[b&15])
		}
	}
	return sb.String()
}

// SerializeURLEncoded is the standard's urlencoded serializer.
func SerializeURLEncoded(list []Pair) string {
	var sb strings.Builder
	for i, p := range list {
		if i > 0 {
			sb.WriteByte('&')
		}
		sb.WriteString(serializeBytes(p.Name))
		sb.WriteByte('=')
		sb.WriteString(serializeBytes(p.Value))
	}
	return sb.String()
}

// List is the sequential model of URLSearchParams.
type List struct{ Pairs []Pair }

func (l *List) Append(n, v string) { l.Pairs = append(l.Pairs, Pair{n, v}) }

func (l *List) Delete(n string) {
	var out []Pair
	for _, p := range l.Pairs {
		if p.Name != n {
			out = append(out, p)
		}
	}
	l.Pairs = out
}

func (l *List) Get(n string) string {
	for _, p := range l.Pairs {
		if p.Name == n {
			return p.Value
		}
	}
	return ""
}

func (l *List) GetAll(n string) []string {
	var out []string
	for _, p := range l.Pairs {
		if p.Name == n {
			out = append(out, p.Value)
		}
	}
	return out
}

func (l *List) Has(n string) bool {
	for _, p := range l.Pairs {
		if p.Name == n {
			return true
		}
	}
	return false
}

func (l *List) Set(n, v string) {
	var out []Pair
	done := false
	for _, p := range l.Pairs {
		if p.Name == n {
			if done {
				continue
			}
			p.Value = v
			done = true
		}
		out = append(out, p)
	}
	if !done {
		out = append(out, Pair{n, v})
	}
	l.Pairs = out
}

// LessUTF16 orders strings by UTF-16 code units (the standard's collation for sort()).
func LessUTF16(a, b string) bool {
	x, y := utf16.Encode([]rune(a)), utf16.Encode([]rune(b))
	for i := 0; i < len(x) && i < len(y); i++ {
		if x[i] != y[i] {
			return x[i] < y[i]
		}
	}
	return len(x) < len(y)
}

// SortStandard is the standard's sort(): stable, by name, UTF-16 code unit order.
func (l *List) SortStandard() {
	sort.SliceStable(l.Pairs, func(i, j int) bool { return LessUTF16(l.Pairs[i].Name, l.Pairs[j].Name) })
}

func (l *List) Clone() *List { return &List{append([]Pair(nil), l.Pairs...)} }
