package refmodel

import (
	"math/big"
	"strconv"
	"strings"
)

// ToASCIIFunc supplies the UTS #46 mapping "as given" (DESIGN.md §2.5) for domains that
// are not on the provable fast path.  ok=false means failure.
type ToASCIIFunc func(domain string) (ascii string, ok bool)

// FastPathDomain reports whether domain-to-ASCII of s is provably the ASCII-lowercased s:
// pure ASCII and no label starting with "xn--" (case-insensitive).  SPEC-NOTES §C.
func FastPathDomain(s string) bool {
	for i := 0; i < len(s); i++ {
		if s[i] >= 0x80 {
			return false
		}
	}
	for _, label := range strings.Split(s, ".") {
		if len(label) >= 4 && strings.EqualFold(label[:4], "xn--") {
			return false
		}
	}
	return true
}

func asciiLower(s string) string {
	b := []byte(s)
	for i, c := range b {
		if c >= 'A' && c <= 'Z' {
			b[i] = c + 0x20
		}
	}
	return string(b)
}

// HostKind classifies the result of HostParse (evidence / monitors).
type HostKind int

const (
	HostFail HostKind = iota
	HostEmpty
	HostIPv6
	HostOpaque
	HostDomain
	HostIPv4
)

// HostParse is the host parser.  input is a scalar-value string given as runes.
func (c *Config) HostParse(input []rune, isNotSpecial bool) (string, HostKind) {
	// 1. bracketed => IPv6
	if len(input) > 0 && input[0] == '[' {
		if input[len(input)-1] != ']' || len(input) < 2 {
			return "", HostFail
		}
		addr, ok := IPv6Parse(input[1 : len(input)-1])
		if !ok {
			return "", HostFail
		}
		return "[" + IPv6Serialize(addr) + "]", HostIPv6
	}
	// 2. opaque host
	if isNotSpecial {
		out, ok := OpaqueHostParse(input)
		if !ok {
			return "", HostFail
		}
		if out == "" {
			return "", HostEmpty
		}
		return out, HostOpaque
	}
	// 3. percent-decode, UTF-8 decode without BOM (lossy)
	decoded := PercentDecode([]byte(string(input)))
	domain := string([]rune(string(decoded)))
	// 4. domain to ASCII
	var ascii string
	if FastPathDomain(domain) {
		ascii = asciiLower(domain)
		if ascii == "" {
			return "", HostFail
		}
	} else {
		var ok bool
		if c.ToASCII == nil {
			return "", HostFail
		}
		ascii, ok = c.ToASCII(domain)
		if !ok || ascii == "" {
			return "", HostFail
		}
	}
	// 5. forbidden domain code points
	for _, r := range ascii {
		if IsForbiddenDomain(r) {
			return "", HostFail
		}
	}
	// 6. IPv4
	if EndsInANumber(ascii) {
		v, ok := IPv4Parse(ascii)
		if !ok {
			return "", HostFail
		}
		return IPv4Serialize(v), HostIPv4
	}
	return ascii, HostDomain
}

// OpaqueHostParse: forbidden host code point => failure, else C0-control percent-encode.
func OpaqueHostParse(input []rune) (string, bool) {
	for _, r := range input {
		if IsForbiddenHost(r) {
			return "", false
		}
	}
	return EncodeRunes(input, C0ControlSet), true
}

// EndsInANumber is the "ends in a number checker".
func EndsInANumber(input string) bool {
	parts := strings.Split(input, ".")
	if parts[len(parts)-1] == "" {
		if len(parts) == 1 {
			return false
		}
		parts = parts[:len(parts)-1]
	}
	last := parts[len(parts)-1]
	if last != "" {
		all := true
		for i := 0; i < len(last); i++ {
			if last[i] < '0' || last[i] > '9' {
				all = false
				break
			}
		}
		if all {
			return true
		}
	}
	if _, ok := IPv4NumberParse(last); ok {
		return true
	}
	return false
}

// IPv4NumberParse is the IPv4 number parser with unbounded integers.
func IPv4NumberParse(s string) (*big.Int, bool) {
	if s == "" {
		return nil, false
	}
	radix := 10
	if len(s) >= 2 && (s[:2] == "0x" || s[:2] == "0X") {
		s = s[2:]
		radix = 16
	} else if len(s) >= 2 && s[0] == '0' {
		s = s[1:]
		radix = 8
	}
	if s == "" {
		return new(big.Int), true
	}
	v := new(big.Int)
	br := big.NewInt(int64(radix))
	for i := 0; i < len(s); i++ {
		d, ok := unhex(s[i])
		if !ok || int(d) >= radix {
			return nil, false
		}
		v.Mul(v, br)
		v.Add(v, big.NewInt(int64(d)))
	}
	return v, true
}

// IPv4Parse is the IPv4 parser.
func IPv4Parse(input string) (uint32, bool) {
	parts := strings.Split(input, ".")
	if parts[len(parts)-1] == "" {
		if len(parts) > 1 {
			parts = parts[:len(parts)-1]
		}
	}
	if len(parts) > 4 {
		return 0, false
	}
	var numbers []*big.Int
	for _, p := range parts {
		n, ok := IPv4NumberParse(p)
		if !ok {
			return 0, false
		}
		numbers = append(numbers, n)
	}
	b255 := big.NewInt(255)
	for _, n := range numbers[:len(numbers)-1] {
		if n.Cmp(b255) > 0 {
			return 0, false
		}
	}
	limit := new(big.Int).Exp(big.NewInt(256), big.NewInt(int64(5-len(numbers))), nil)
	last := numbers[len(numbers)-1]
	if last.Cmp(limit) >= 0 {
		return 0, false
	}
	v := new(big.Int).Set(last)
	for i, n := range numbers[:len(numbers)-1] {
		t := new(big.Int).Exp(big.NewInt(256), big.NewInt(int64(3-i)), nil)
		t.Mul(t, n)
		v.Add(v, t)
	}
	if !v.IsUint64() || v.Uint64() > 0xFFFFFFFF {
		return 0, false
	}
	return uint32(v.Uint64()), true
}

// IPv4Serialize: four decimal octets.
func IPv4Serialize(v uint32) string {
	return strconv.Itoa(int(v>>24)) + "." + strconv.Itoa(int(v>>16&0xFF)) + "." +
		strconv.Itoa(int(v>>8&0xFF)) + "." + strconv.Itoa(int(v&0xFF))
}

const eof rune = -1

// IPv6Parse is the IPv6 parser (input without the brackets).
func IPv6Parse(input []rune) ([8]uint16, bool) {
	var address [8]uint16
	fail := [8]uint16{}
	pieceIndex := 0
	compress := -1
	pointer := 0
	c := func() rune {
		if pointer >= 0 && pointer < len(input) {
			return input[pointer]
		}
		return eof
	}
	startsWith := func(from int, r rune) bool { // remaining starts with r
		return from < len(input) && from >= 0 && input[from] == r
	}
	if c() == ':' {
		if !startsWith(pointer+1, ':') {
			return fail, false
		}
		pointer += 2
		pieceIndex++
		compress = pieceIndex
	}
	for c() != eof {
		if pieceIndex == 8 {
			return fail, false
		}
		if c() == ':' {
			if compress != -1 {
				return fail, false
			}
			pointer++
			pieceIndex++
			compress = pieceIndex
			continue
		}
		value, length := 0, 0
		for length < 4 && c() != eof && isHex(c()) {
			d, _ := unhex(byte(c()))
			value = value*0x10 + int(d)
			pointer++
			length++
		}
		if c() == '.' {
			if length == 0 {
				return fail, false
			}
			pointer -= length
			if pieceIndex > 6 {
				return fail, false
			}
			numbersSeen := 0
			for c() != eof {
				ipv4Piece := -1
				if numbersSeen > 0 {
					if c() == '.' && numbersSeen < 4 {
						pointer++
					} else {
						return fail, false
					}
				}
				if c() == eof || !isDigit(c()) {
					return fail, false
				}
				for c() != eof && isDigit(c()) {
					n := int(c() - '0')
					if ipv4Piece == -1 {
						ipv4Piece = n
					} else if ipv4Piece == 0 {
						return fail, false
					} else {
						ipv4Piece = ipv4Piece*10 + n
					}
					if ipv4Piece > 255 {
						return fail, false
					}
					pointer++
				}
				address[pieceIndex] = address[pieceIndex]*0x100 + uint16(ipv4Piece)
				numbersSeen++
				if numbersSeen == 2 || numbersSeen == 4 {
					pieceIndex++
				}
			}
			if numbersSeen != 4 {
				return fail, false
			}
			break
		} else if c() == ':' {
			pointer++
			if c() == eof {
				return fail, false
			}
		} else if c() != eof {
			return fail, false
		}
		address[pieceIndex] = uint16(value)
		pieceIndex++
	}
	if compress != -1 {
		swaps := pieceIndex - compress
		pieceIndex = 7
		for pieceIndex != 0 && swaps > 0 {
			address[pieceIndex], address[compress+swaps-1] = address[compress+swaps-1], address[pieceIndex]
			pieceIndex--
			swaps--
		}
	} else if pieceIndex != 8 {
		return fail, false
	}
	return address, true
}

// IPv6Serialize: first longest run of >= 2 zero pieces is compressed.
func IPv6Serialize(a [8]uint16) string {
	compress, bestLen := -1, 1
	for i := 0; i < 8; {
		if a[i] != 0 {
			i++
			continue
		}
		j := i
		for j < 8 && a[j] == 0 {
			j++
		}
		if j-i > bestLen {
			compress, bestLen = i, j-i
		}
		i = j
	}
	var sb strings.Builder
	ignore0 := false
	for i := 0; i < 8; i++ {
		if ignore0 && a[i] == 0 {
			continue
		} else if ignore0 {
			ignore0 = false
		}
		if compress == i {
			if i == 0 {
				sb.WriteString("::")
			} else {
				sb.WriteString(":")
			}
			ignore0 = true
			continue
		}
		sb.WriteString(strconv.FormatUint(uint64(a[i]), 16))
		if i != 7 {
			sb.WriteString(":")
		}
	}
	return sb.String()
}
