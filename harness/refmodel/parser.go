package refmodel

import (
	"math/big"
	"strconv"
	"strings"
)

// Config parameterises the model by what the public options can change without leaving
// the standard's algorithm (DESIGN.md §3.1).
type Config struct {
	Special         map[string]string // scheme -> default port ("" = none)
	Path            Set
	Query           Set
	SpecialQuery    Set
	Fragment        Set
	SpecialFragment Set
	ToASCII         ToASCIIFunc
}

// Default returns the standard's configuration.
func Default(toASCII ToASCIIFunc) *Config {
	return &Config{
		Special:         map[string]string{"ftp": "21", "file": "", "http": "80", "https": "443", "ws": "80", "wss": "443"},
		Path:            PathSet,
		Query:           QuerySet,
		SpecialQuery:    SpecialQuerySet,
		Fragment:        FragmentSet,
		SpecialFragment: FragmentSet,
		ToASCII:         toASCII,
	}
}

// URL is the URL record.
type URL struct {
	Scheme   string
	Username string
	Password string
	Host     *string
	Port     *int
	Path     []string // segments; if Opaque, Path[0] is the opaque path
	Opaque   bool
	Query    *string
	Fragment *string
}

func strp(s string) *string { return &s }

// Clone copies the record.
func (u *URL) Clone() *URL {
	c := *u
	if u.Host != nil {
		c.Host = strp(*u.Host)
	}
	if u.Port != nil {
		p := *u.Port
		c.Port = &p
	}
	c.Path = append([]string(nil), u.Path...)
	if u.Query != nil {
		c.Query = strp(*u.Query)
	}
	if u.Fragment != nil {
		c.Fragment = strp(*u.Fragment)
	}
	return &c
}

type State int

const (
	NoOverride State = iota
	SchemeStart
	Scheme
	NoScheme
	SpecialRelativeOrAuthority
	PathOrAuthority
	Relative
	RelativeSlash
	SpecialAuthoritySlashes
	SpecialAuthorityIgnoreSlashes
	Authority
	Host
	Hostname
	Port
	File
	FileSlash
	FileHost
	PathStart
	Path
	OpaquePath
	Query
	Fragment
)

func (c *Config) isSpecial(scheme string) bool {
	_, ok := c.Special[scheme]
	return ok
}

func (c *Config) defaultPort(scheme string) (int, bool) {
	dp, ok := c.Special[scheme]
	if !ok || dp == "" {
		return 0, false
	}
	n, err := strconv.Atoi(dp)
	if err != nil {
		return 0, false
	}
	return n, true
}

func isWindowsDriveLetter(s []rune) bool {
	return len(s) == 2 && isAlpha(s[0]) && (s[1] == ':' || s[1] == '|')
}

func isNormalizedWindowsDriveLetter(s string) bool {
	return len(s) == 2 && isAlpha(rune(s[0])) && s[1] == ':'
}

func startsWithWindowsDriveLetter(s []rune) bool {
	if len(s) < 2 || !isWindowsDriveLetter(s[:2]) {
		return false
	}
	return len(s) == 2 || s[2] == '/' || s[2] == '\\' || s[2] == '?' || s[2] == '#'
}

func isSingleDot(s string) bool {
	return s == "." || strings.EqualFold(s, "%2e")
}

func isDoubleDot(s string) bool {
	return s == ".." || strings.EqualFold(s, ".%2e") || strings.EqualFold(s, "%2e.") || strings.EqualFold(s, "%2e%2e")
}

func (u *URL) shortenPath() {
	if u.Scheme == "file" && len(u.Path) == 1 && isNormalizedWindowsDriveLetter(u.Path[0]) {
		return
	}
	if len(u.Path) > 0 {
		u.Path = u.Path[:len(u.Path)-1]
	}
}

func (u *URL) includesCredentials() bool { return u.Username != "" || u.Password != "" }

// Parse is the URL parser: basic URL parser without url and without state override.
// A nil result means failure.
func (c *Config) Parse(input string, base *URL) *URL {
	u, ok := c.Basic([]rune(input), base, nil, NoOverride)
	if !ok {
		return nil
	}
	return u
}

// Basic is the basic URL parser (SPEC-NOTES §B).  It returns (url, false) on failure; with
// a given url the record keeps whatever was written before the failure.
func (c *Config) Basic(input []rune, base *URL, url *URL, override State) (*URL, bool) {
	if url == nil {
		url = &URL{}
		// strip leading and trailing C0 control or space
		s, e := 0, len(input)
		for s < e && IsC0ControlOrSpace(input[s]) {
			s++
		}
		for e > s && IsC0ControlOrSpace(input[e-1]) {
			e--
		}
		input = input[s:e]
	}
	// remove all ASCII tab or newline
	{
		clean := make([]rune, 0, len(input))
		for _, r := range input {
			if !IsTabOrNewline(r) {
				clean = append(clean, r)
			}
		}
		input = clean
	}
	state := override
	if override == NoOverride {
		state = SchemeStart
	}
	hasOverride := override != NoOverride
	var buffer []rune  // raw code points (scheme, authority, host, port, query states)
	var pbuf string    // path-state buffer: already percent-encoded text
	var qbuf []rune    // query-state buffer
	atSignSeen, insideBrackets, passwordTokenSeen := false, false, false
	pointer := 0

	cur := func() rune {
		if pointer >= 0 && pointer < len(input) {
			return input[pointer]
		}
		return eof
	}
	remainingStartsWith := func(s string) bool {
		rs := []rune(s)
		from := pointer + 1
		if from < 0 || from+len(rs) > len(input) {
			return false
		}
		for i, r := range rs {
			if input[from+i] != r {
				return false
			}
		}
		return true
	}
	fromPointer := func() []rune {
		if pointer < 0 || pointer >= len(input) {
			return nil
		}
		return input[pointer:]
	}
	special := func() bool { return c.isSpecial(url.Scheme) }

	for {
		ch := cur()
		switch state {
		case SchemeStart:
			if ch != eof && isAlpha(ch) {
				buffer = append(buffer, lower(ch))
				state = Scheme
			} else if !hasOverride {
				state = NoScheme
				pointer--
			} else {
				return url, false
			}

		case Scheme:
			if ch != eof && (isAlnum(ch) || ch == '+' || ch == '-' || ch == '.') {
				buffer = append(buffer, lower(ch))
			} else if ch == ':' {
				buf := string(buffer)
				if hasOverride {
					if c.isSpecial(url.Scheme) != c.isSpecial(buf) {
						return url, true
					}
					if (url.includesCredentials() || url.Port != nil) && buf == "file" {
						return url, true
					}
					if url.Scheme == "file" && url.Host != nil && *url.Host == "" {
						return url, true
					}
				}
				url.Scheme = buf
				if hasOverride {
					if dp, ok := c.defaultPort(url.Scheme); ok && url.Port != nil && *url.Port == dp {
						url.Port = nil
					}
					return url, true
				}
				buffer = buffer[:0]
				if url.Scheme == "file" {
					state = File
				} else if special() && base != nil && base.Scheme == url.Scheme {
					state = SpecialRelativeOrAuthority
				} else if special() {
					state = SpecialAuthoritySlashes
				} else if remainingStartsWith("/") {
					state = PathOrAuthority
					pointer++
				} else {
					url.Path = []string{""}
					url.Opaque = true
					state = OpaquePath
				}
			} else if !hasOverride {
				buffer = buffer[:0]
				state = NoScheme
				pointer = -1
			} else {
				return url, false
			}

		case NoScheme:
			if base == nil || (base.Opaque && ch != '#') {
				return url, false
			} else if base.Opaque && ch == '#' {
				url.Scheme = base.Scheme
				url.Path = append([]string(nil), base.Path...)
				url.Opaque = true
				url.Query = nil
				if base.Query != nil {
					url.Query = strp(*base.Query)
				}
				url.Fragment = strp("")
				state = Fragment
			} else if base.Scheme != "file" {
				state = Relative
				pointer--
			} else {
				state = File
				pointer--
			}

		case SpecialRelativeOrAuthority:
			if ch == '/' && remainingStartsWith("/") {
				state = SpecialAuthorityIgnoreSlashes
				pointer++
			} else {
				state = Relative
				pointer--
			}

		case PathOrAuthority:
			if ch == '/' {
				state = Authority
			} else {
				state = Path
				pointer--
			}

		case Relative:
			url.Scheme = base.Scheme
			if ch == '/' {
				state = RelativeSlash
			} else if special() && ch == '\\' {
				state = RelativeSlash
			} else {
				url.Username = base.Username
				url.Password = base.Password
				url.Host = nil
				if base.Host != nil {
					url.Host = strp(*base.Host)
				}
				url.Port = nil
				if base.Port != nil {
					p := *base.Port
					url.Port = &p
				}
				url.Path = append([]string(nil), base.Path...)
				url.Opaque = base.Opaque
				url.Query = nil
				if base.Query != nil {
					url.Query = strp(*base.Query)
				}
				if ch == '?' {
					url.Query = strp("")
					state = Query
				} else if ch == '#' {
					url.Fragment = strp("")
					state = Fragment
				} else if ch != eof {
					url.Query = nil
					url.shortenPath()
					state = Path
					pointer--
				}
			}

		case RelativeSlash:
			if special() && (ch == '/' || ch == '\\') {
				state = SpecialAuthorityIgnoreSlashes
			} else if ch == '/' {
				state = Authority
			} else {
				url.Username = base.Username
				url.Password = base.Password
				url.Host = nil
				if base.Host != nil {
					url.Host = strp(*base.Host)
				}
				url.Port = nil
				if base.Port != nil {
					p := *base.Port
					url.Port = &p
				}
				state = Path
				pointer--
			}

		case SpecialAuthoritySlashes:
			if ch == '/' && remainingStartsWith("/") {
				state = SpecialAuthorityIgnoreSlashes
				pointer++
			} else {
				state = SpecialAuthorityIgnoreSlashes
				pointer--
			}

		case SpecialAuthorityIgnoreSlashes:
			if ch != '/' && ch != '\\' {
				state = Authority
				pointer--
			}

		case Authority:
			if ch == '@' {
				if atSignSeen {
					buffer = append([]rune("%40"), buffer...)
				}
				atSignSeen = true
				for _, cp := range buffer {
					if cp == ':' && !passwordTokenSeen {
						passwordTokenSeen = true
						continue
					}
					enc := EncodeRune(cp, UserinfoSet)
					if passwordTokenSeen {
						url.Password += enc
					} else {
						url.Username += enc
					}
				}
				buffer = buffer[:0]
			} else if ch == eof || ch == '/' || ch == '?' || ch == '#' || (special() && ch == '\\') {
				if atSignSeen && len(buffer) == 0 {
					return url, false
				}
				pointer -= len(buffer) + 1
				buffer = buffer[:0]
				state = Host
			} else {
				buffer = append(buffer, ch)
			}

		case Host, Hostname:
			if hasOverride && url.Scheme == "file" {
				pointer--
				state = FileHost
			} else if ch == ':' && !insideBrackets {
				if len(buffer) == 0 {
					return url, false
				}
				if override == Hostname {
					return url, true
				}
				h, kind := c.HostParse(buffer, !special())
				if kind == HostFail {
					return url, false
				}
				url.Host = strp(h)
				buffer = buffer[:0]
				state = Port
			} else if ch == eof || ch == '/' || ch == '?' || ch == '#' || (special() && ch == '\\') {
				pointer--
				if special() && len(buffer) == 0 {
					return url, false
				} else if hasOverride && len(buffer) == 0 && (url.includesCredentials() || url.Port != nil) {
					return url, true
				}
				h, kind := c.HostParse(buffer, !special())
				if kind == HostFail {
					return url, false
				}
				url.Host = strp(h)
				buffer = buffer[:0]
				state = PathStart
				if hasOverride {
					return url, true
				}
			} else {
				if ch == '[' {
					insideBrackets = true
				}
				if ch == ']' {
					insideBrackets = false
				}
				buffer = append(buffer, ch)
			}

		case Port:
			if ch != eof && isDigit(ch) {
				buffer = append(buffer, ch)
			} else if ch == eof || ch == '/' || ch == '?' || ch == '#' || (special() && ch == '\\') || hasOverride {
				if len(buffer) != 0 {
					v, _ := new(big.Int).SetString(string(buffer), 10)
					if v.Cmp(big.NewInt(65535)) > 0 {
						return url, false
					}
					port := int(v.Int64())
					if dp, ok := c.defaultPort(url.Scheme); ok && dp == port {
						url.Port = nil
					} else {
						url.Port = &port
					}
					buffer = buffer[:0]
				}
				if hasOverride {
					return url, true
				}
				state = PathStart
				pointer--
			} else {
				return url, false
			}

		case File:
			url.Scheme = "file"
			url.Host = strp("")
			if ch == '/' || ch == '\\' {
				state = FileSlash
			} else if base != nil && base.Scheme == "file" {
				url.Host = nil
				if base.Host != nil {
					url.Host = strp(*base.Host)
				}
				url.Path = append([]string(nil), base.Path...)
				url.Opaque = base.Opaque
				url.Query = nil
				if base.Query != nil {
					url.Query = strp(*base.Query)
				}
				if ch == '?' {
					url.Query = strp("")
					state = Query
				} else if ch == '#' {
					url.Fragment = strp("")
					state = Fragment
				} else if ch != eof {
					url.Query = nil
					if !startsWithWindowsDriveLetter(fromPointer()) {
						url.shortenPath()
					} else {
						url.Path = nil
					}
					state = Path
					pointer--
				}
			} else {
				state = Path
				pointer--
			}

		case FileSlash:
			if ch == '/' || ch == '\\' {
				state = FileHost
			} else {
				if base != nil && base.Scheme == "file" {
					url.Host = nil
					if base.Host != nil {
						url.Host = strp(*base.Host)
					}
					if !startsWithWindowsDriveLetter(fromPointer()) && len(base.Path) > 0 && !base.Opaque &&
						isNormalizedWindowsDriveLetter(base.Path[0]) {
						url.Path = append(url.Path, base.Path[0])
					}
				}
				state = Path
				pointer--
			}

		case FileHost:
			if ch == eof || ch == '/' || ch == '\\' || ch == '?' || ch == '#' {
				pointer--
				if !hasOverride && isWindowsDriveLetter(buffer) {
					// buffer is kept: it becomes the first path segment (SPEC-NOTES §F)
					pbuf = string(buffer)
					buffer = buffer[:0]
					state = Path
				} else if len(buffer) == 0 {
					url.Host = strp("")
					if hasOverride {
						return url, true
					}
					state = PathStart
				} else {
					h, kind := c.HostParse(buffer, !special())
					if kind == HostFail {
						return url, false
					}
					if h == "localhost" {
						h = ""
					}
					url.Host = strp(h)
					if hasOverride {
						return url, true
					}
					buffer = buffer[:0]
					state = PathStart
				}
			} else {
				buffer = append(buffer, ch)
			}

		case PathStart:
			if special() {
				state = Path
				if ch != '/' && ch != '\\' {
					pointer--
				}
			} else if !hasOverride && ch == '?' {
				url.Query = strp("")
				state = Query
			} else if !hasOverride && ch == '#' {
				url.Fragment = strp("")
				state = Fragment
			} else if ch != eof {
				state = Path
				if ch != '/' {
					pointer--
				}
			} else if hasOverride && url.Host == nil {
				url.Path = append(url.Path, "")
			}

		case Path:
			if ch == eof || ch == '/' || (special() && ch == '\\') || (!hasOverride && (ch == '?' || ch == '#')) {
				slash := ch == '/' || (special() && ch == '\\')
				if isDoubleDot(pbuf) {
					url.shortenPath()
					if !slash {
						url.Path = append(url.Path, "")
					}
				} else if isSingleDot(pbuf) && !slash {
					url.Path = append(url.Path, "")
				} else if !isSingleDot(pbuf) {
					if url.Scheme == "file" && len(url.Path) == 0 && isWindowsDriveLetter([]rune(pbuf)) {
						pbuf = pbuf[:1] + ":"
					}
					url.Path = append(url.Path, pbuf)
				}
				pbuf = ""
				if ch == '?' {
					url.Query = strp("")
					state = Query
				}
				if ch == '#' {
					url.Fragment = strp("")
					state = Fragment
				}
			} else {
				pbuf += EncodeRune(ch, c.Path)
			}

		case OpaquePath:
			if ch == '?' {
				url.Query = strp("")
				state = Query
			} else if ch == '#' {
				url.Fragment = strp("")
				state = Fragment
			} else if ch != eof {
				url.Path[0] += EncodeRune(ch, C0ControlSet)
			}

		case Query:
			if (!hasOverride && ch == '#') || ch == eof {
				set := c.Query
				if special() {
					set = c.SpecialQuery
				}
				if url.Query == nil {
					url.Query = strp("")
				}
				*url.Query += EncodeRunes(qbuf, set)
				qbuf = qbuf[:0]
				if ch == '#' {
					url.Fragment = strp("")
					state = Fragment
				}
			} else {
				qbuf = append(qbuf, ch)
			}

		case Fragment:
			if ch != eof {
				set := c.Fragment
				if special() {
					set = c.SpecialFragment
				}
				if url.Fragment == nil {
					url.Fragment = strp("")
				}
				*url.Fragment += EncodeRune(ch, set)
			}
		}

		if pointer >= len(input) {
			break
		}
		pointer++
	}
	return url, true
}
