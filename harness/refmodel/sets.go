// Package refmodel is the reference model M of DESIGN.md §3: an independent, direct
// transcription of /verif/SPEC-NOTES.md (WHATWG URL Standard, 24 May 2023 snapshot).
// It shares no code and no tables with /repo.  It is written for obviousness: one
// function per parser state, []rune input and an integer pointer as in the prose.
package refmodel

// Set is a percent-encode set given as a predicate over code points.
type Set func(r rune) bool

func in(r rune, chars string) bool {
	for _, c := range chars {
		if c == r {
			return true
		}
	}
	return false
}

// SPEC-NOTES §A.

func IsC0Control(r rune) bool { return r >= 0 && r <= 0x1F }

func C0ControlSet(r rune) bool { return IsC0Control(r) || r > 0x7E }

func FragmentSet(r rune) bool { return C0ControlSet(r) || in(r, " \"<>`") }

func QuerySet(r rune) bool { return C0ControlSet(r) || in(r, " \"#<>") }

func SpecialQuerySet(r rune) bool { return QuerySet(r) || r == '\'' }

func PathSet(r rune) bool { return QuerySet(r) || in(r, "?`{}") }

func UserinfoSet(r rune) bool { return PathSet(r) || in(r, "/:;=@[\\]^|") }

func ComponentSet(r rune) bool { return UserinfoSet(r) || in(r, "$%&+,") }

func URLEncodedSet(r rune) bool { return ComponentSet(r) || in(r, "!'()~") }

func IsTabOrNewline(r rune) bool { return r == 0x09 || r == 0x0A || r == 0x0D }

func IsC0ControlOrSpace(r rune) bool { return r >= 0 && r <= 0x20 }

func IsForbiddenHost(r rune) bool {
	return r == 0 || r == 0x09 || r == 0x0A || r == 0x0D || r == 0x20 || in(r, "#/:<>?@[\\]^|")
}

func IsForbiddenDomain(r rune) bool {
	return IsForbiddenHost(r) || IsC0Control(r) || r == '%' || r == 0x7F
}

func isAlpha(r rune) bool { return (r >= 'a' && r <= 'z') || (r >= 'A' && r <= 'Z') }
func isDigit(r rune) bool { return r >= '0' && r <= '9' }
func isAlnum(r rune) bool { return isAlpha(r) || isDigit(r) }
func isHex(r rune) bool {
	return isDigit(r) || (r >= 'a' && r <= 'f') || (r >= 'A' && r <= 'F')
}
func lower(r rune) rune {
	if r >= 'A' && r <= 'Z' {
		return r + 0x20
	}
	return r
}

const hexUpper = "0123456789ABCDEF"

// utf8Bytes encodes one scalar value as UTF-8 (written out; no library tables).
func utf8Bytes(r rune) []byte {
	if r < 0 || r > 0x10FFFF || (r >= 0xD800 && r <= 0xDFFF) {
		r = 0xFFFD
	}
	switch {
	case r < 0x80:
		return []byte{byte(r)}
	case r < 0x800:
		return []byte{0xC0 | byte(r>>6), 0x80 | byte(r&0x3F)}
	case r < 0x10000:
		return []byte{0xE0 | byte(r>>12), 0x80 | byte((r>>6)&0x3F), 0x80 | byte(r&0x3F)}
	default:
		return []byte{0xF0 | byte(r>>18), 0x80 | byte((r>>12)&0x3F), 0x80 | byte((r>>6)&0x3F), 0x80 | byte(r&0x3F)}
	}
}

// EncodeRune is "UTF-8 percent-encode a code point using a percent-encode set".
func EncodeRune(r rune, s Set) string {
	if !s(r) {
		return string(r)
	}
	out := make([]byte, 0, 12)
	for _, b := range utf8Bytes(r) {
		out = append(out, '%', hexUpper[b>>4], hexUpper[b&15])
	}
	return string(out)
}

// EncodeRunes percent-encodes every code point of rs with s.
func EncodeRunes(rs []rune, s Set) string {
	out := make([]byte, 0, len(rs))
	for _, r := range rs {
		out = append(out, EncodeRune(r, s)...)
	}
	return string(out)
}

// EncodeString reads str as a scalar-value string and percent-encodes it with s.
func EncodeString(str string, s Set) string { return EncodeRunes([]rune(str), s) }

func unhex(b byte) (byte, bool) {
	switch {
	case b >= '0' && b <= '9':
		return b - '0', true
	case b >= 'a' && b <= 'f':
		return b - 'a' + 10, true
	case b >= 'A' && b <= 'F':
		return b - 'A' + 10, true
	}
	return 0, false
}

// PercentDecode is "percent-decode a byte sequence".
func PercentDecode(in []byte) []byte {
	out := make([]byte, 0, len(in))
	for i := 0; i < len(in); i++ {
		b := in[i]
		if b != '%' || i+2 >= len(in) {
			out = append(out, b)
			continue
		}
		h, ok1 := unhex(in[i+1])
		l, ok2 := unhex(in[i+2])
		if !ok1 || !ok2 {
			out = append(out, b)
			continue
		}
		out = append(out, h<<4|l)
		i += 2
	}
	return out
}

// Scalar returns the scalar-value reading of a Go string (every byte that is not part
// of a valid UTF-8 sequence reads as U+FFFD), re-encoded as valid UTF-8.
func Scalar(s string) string { return string([]rune(s)) }
