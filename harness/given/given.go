// Package given supplies the IDNA mapping "as given" (DESIGN.md §2.5): the properties take
// the UTS #46 mapping of non-ASCII / xn-- labels as given, so the reference model asks the
// implementation for exactly that step and computes everything around it itself.
package given

import (
	"os"
	"strings"

	"github.com/nlnwa/whatwg-url/url"
)

type toASCIIer interface {
	ToASCII(src string, beStrict bool) (string, error)
}

var direct toASCIIer

func init() {
	if os.Getenv("VERIF_FORCE_PROBE") != "" {
		return // development: exercise the API-only fallback
	}
	if t, ok := url.NewParser().(toASCIIer); ok {
		direct = t
	}
}

// Direct reports whether the exported ToASCII method is reachable.
func Direct() bool { return direct != nil }

// ToASCII returns the implementation's domain-to-ASCII result for a (percent-decoded,
// valid UTF-8) domain.
func ToASCII(domain string) (string, bool) {
	if direct != nil {
		a, err := direct.ToASCII(domain, false)
		if err != nil || a == "" {
			return "", false
		}
		return a, true
	}
	return probe(domain)
}

const hexUpper = "0123456789ABCDEF"

// probe is the API-only fallback: the final host of wss://<fully percent-encoded domain>/.
// It yields the host after the whole pipeline, which for a domain that is not an IPv4
// address equals the ToASCII output.
func probe(domain string) (string, bool) {
	var sb strings.Builder
	for i := 0; i < len(domain); i++ {
		b := domain[i]
		sb.WriteByte('%')
		sb.WriteByte(hexUpper[b>>4])
		sb.WriteByte(hexUpper[b&15])
	}
	u, err := url.Parse("wss://" + sb.String() + "/")
	if err != nil || u == nil {
		return "", false
	}
	return u.Hostname(), true
}
