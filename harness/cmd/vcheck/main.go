// Command vcheck is the driver and worker of the runtime-monitoring checks (DESIGN.md §2).
package main

import (
	"os"

	"verif/core"
	"verif/gen"
	"verif/given"
	_ "verif/kf"
	_ "verif/mon"
	"verif/refmodel"
)

func main() {
	root := os.Getenv("VERIF_ROOT")
	if root == "" {
		root = "/verif"
	}
	if err := gen.Load(root + "/testdata"); err != nil {
		println("BROKEN-CHECK cannot load corpus:", err.Error())
		os.Exit(2)
	}
	core.SelfCheck = func(dir string) (int, error) { return refmodel.SelfCheck(dir, given.ToASCII) }
	core.RaceEnabled = raceEnabled
	os.Exit(core.Main(os.Args[1:]))
}
