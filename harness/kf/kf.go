// Package kf holds the classifiers of the open known findings (DESIGN.md §2.6, §7).  A
// classifier recognises one specific root cause by the shape of the witness, never by
// property alone, so that a different violation of the same property is still reported.
package kf

import (
	"fmt"
	"strings"

	"golang.org/x/net/idna"

	"github.com/nlnwa/whatwg-url/errors"
	"github.com/nlnwa/whatwg-url/url"

	"verif/core"
)

func init() {
	core.RegisterClassifier("ace-label-of-std3-fallback", aceLabelOfSTD3Fallback)
}

// hostOfHref cuts the host out of a serialized URL (scheme://[userinfo@]host[:port]...).
func hostOfHref(href string) string {
	i := strings.Index(href, "://")
	if i < 0 {
		return ""
	}
	rest := href[i+3:]
	if j := strings.IndexAny(rest, "/?#"); j >= 0 {
		rest = rest[:j]
	}
	if j := strings.LastIndex(rest, "@"); j >= 0 {
		rest = rest[j+1:]
	}
	if strings.HasPrefix(rest, "[") {
		return rest
	}
	if j := strings.LastIndex(rest, ":"); j >= 0 {
		rest = rest[:j]
	}
	return rest
}

// KF-A: the ToASCII fallback for U+2260 / U+226E / U+226F ("disallowed_STD3_valid") emits an
// ACE label that the strict IDNA profile rejects when the serialization is parsed again.
// Witness shape: Expected holds the serialization; re-parsing it fails with error type
// DomainToASCII, and its host has an xn-- label whose Punycode decoding contains one of the
// three code points.
func aceLabelOfSTD3Fallback(prop string, v *core.Violation) bool {
	href, ok := v.Expected.(string)
	if !ok || href == "" {
		return false
	}
	_, err := url.Parse(href)
	if err == nil || errors.Type(err) != errors.DomainToASCII {
		return false
	}
	for _, label := range strings.Split(hostOfHref(href), ".") {
		if len(label) < 4 || !strings.EqualFold(label[:4], "xn--") {
			continue
		}
		dec, derr := idna.ToUnicode(label)
		if derr != nil && dec == "" {
			continue
		}
		if strings.ContainsAny(dec, "≠≮≯") {
			return true
		}
	}
	return false
}

var _ = fmt.Sprint
