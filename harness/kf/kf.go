// Package kf holds the classifiers of the open known findings (DESIGN.md §2.6, §7).  A
// classifier recognises one specific root cause by the shape of the witness, never by
// property alone, so that a different violation of the same property is still reported.
package kf

import (
	"verif/core"
)

func init() {
	_ = core.RegisterClassifier
}
