// Package kf holds the classifiers of the open known findings (DESIGN.md §2.6, §7).  A
// classifier recognises one specific root cause by the shape of the witness, never by
// property alone, so that a different violation of the same property is still reported.
package kf

import (
	"fmt"
	"strings"

	"golang.org/x/net/idna"

	"github.com/nlnwa/whatwg-url/errors"
	"github.com/nlnwa/whatwg-url/url"

	"verif/core"
	"verif/refmodel"
)

func init() {
	core.RegisterClassifier("ace-label-of-std3-fallback", aceLabelOfSTD3Fallback)
	core.RegisterClassifier("searchparams-serializer-uses-query-set", serializerUsesQuerySet)
}

// hostOfHref cuts the host out of a serialized URL (scheme://[userinfo@]host[:port]...).
func hostOfHref(href string) string {
	i := strings.Index(href, "://")
	if i < 0 {
		return ""
	}
	rest := href[i+3:]
	if j := strings.IndexAny(rest, "/?#"); j >= 0 {
		rest = rest[:j]
	}
	if j := strings.LastIndex(rest, "@"); j >= 0 {
		rest = rest[j+1:]
	}
	if strings.HasPrefix(rest, "[") {
		return rest
	}
	if j := strings.LastIndex(rest, ":"); j >= 0 {
		rest = rest[:j]
	}
	return rest
}

// KF-A: the ToASCII fallback for U+2260 / U+226E / U+226F ("disallowed_STD3_valid") emits an
// ACE label that the strict IDNA profile rejects when the serialization is parsed again.
// Witness shape: Expected holds the serialization; re-parsing it fails with error type
// DomainToASCII, and its host has an xn-- label whose Punycode decoding contains one of the
// three code points.
func aceLabelOfSTD3Fallback(prop string, v *core.Violation) bool {
	href, ok := v.Expected.(string)
	if !ok || href == "" {
		return false
	}
	_, err := url.Parse(href)
	if err == nil || errors.Type(err) != errors.DomainToASCII {
		return false
	}
	for _, label := range strings.Split(hostOfHref(href), ".") {
		if len(label) < 4 || !strings.EqualFold(label[:4], "xn--") {
			continue
		}
		dec, derr := idna.ToUnicode(label)
		if derr != nil && dec == "" {
			continue
		}
		if strings.ContainsAny(dec, "≠≮≯") {
			return true
		}
	}
	return false
}

// KF-B: SearchParams.String() escapes names and values with the URL *query* percent-encode set
// (plus space -> '+') instead of the urlencoded set, so '&', '+', '=' in a name and '%HH'
// are emitted literally and the list does not survive serialize -> parse.  Witness shape:
// Expected is the list (pairs), Observed the list read back; the finding explains the
// violation iff the list contains at least one such delimiter AND the observed list is
// exactly what the urlencoded parser makes of that known serialization.
func serializerUsesQuerySet(prop string, v *core.Violation) bool {
	want, ok1 := v.Expected.([][2]core.S)
	got, ok2 := v.Observed.([][2]core.S)
	if !ok1 || !ok2 {
		return false
	}
	trigger := false
	var sb strings.Builder
	for i, p := range want {
		name, value := string(p[0]), string(p[1])
		if strings.ContainsAny(name, "&+=") || strings.ContainsAny(value, "&+") || hasEscape(name) || hasEscape(value) {
			trigger = true
		}
		if i > 0 {
			sb.WriteByte('&')
		}
		sb.WriteString(knownEscape(name))
		sb.WriteByte('=')
		sb.WriteString(knownEscape(value))
	}
	if !trigger {
		return false
	}
	predicted := refmodel.ParseURLEncoded(sb.String())
	if len(predicted) != len(got) {
		return false
	}
	for i, p := range predicted {
		if p.Name != string(got[i][0]) || p.Value != string(got[i][1]) {
			return false
		}
	}
	return true
}

func hasEscape(s string) bool {
	for i := 0; i+2 < len(s); i++ {
		if s[i] == '%' && isHex(s[i+1]) && isHex(s[i+2]) {
			return true
		}
	}
	return false
}

func isHex(b byte) bool {
	return (b >= '0' && b <= '9') || (b >= 'a' && b <= 'f') || (b >= 'A' && b <= 'F')
}

// knownEscape is the serializer as it is today: space -> '+', otherwise the query set.
func knownEscape(s string) string {
	var sb strings.Builder
	for _, r := range s {
		if r == ' ' {
			sb.WriteByte('+')
		} else {
			sb.WriteString(refmodel.EncodeRune(r, refmodel.QuerySet))
		}
	}
	return sb.String()
}

var _ = fmt.Sprint
