// Package kf holds the classifiers of the open known findings (DESIGN.md §2.6, §7).  A
// classifier recognises one specific root cause by the shape of the witness, never by
// property alone, so that a different violation of the same property is still reported.
package kf

import (
	"fmt"
	"sort"
	"strings"

	"golang.org/x/net/idna"

	"github.com/nlnwa/whatwg-url/errors"
	"github.com/nlnwa/whatwg-url/url"

	"verif/core"
	"verif/refmodel"
)

func init() {
	core.RegisterClassifier("ace-label-of-std3-fallback", aceLabelOfSTD3Fallback)
	core.RegisterClassifier("searchparams-serializer-uses-query-set", serializerUsesQuerySet)
	core.RegisterClassifier("canonical-query-reserialized-by-known-serializer", canonicalQueryReserialized)
	core.RegisterClassifier("repeated-decoding-of-opaque-host", repeatedDecodingOfOpaqueHost)
	core.RegisterClassifier("sorted-query-reserialized-by-known-serializer", sortedQueryReserialized)
}

// hostOfHref cuts the host out of a serialized URL (scheme://[userinfo@]host[:port]...).
func hostOfHref(href string) string {
	i := strings.Index(href, "://")
	if i < 0 {
		return ""
	}
	rest := href[i+3:]
	if j := strings.IndexAny(rest, "/?#"); j >= 0 {
		rest = rest[:j]
	}
	if j := strings.LastIndex(rest, "@"); j >= 0 {
		rest = rest[j+1:]
	}
	if strings.HasPrefix(rest, "[") {
		return rest
	}
	if j := strings.LastIndex(rest, ":"); j >= 0 {
		rest = rest[:j]
	}
	return rest
}

// KF-A: the ToASCII fallback for U+2260 / U+226E / U+226F ("disallowed_STD3_valid") emits an
// ACE label that the strict IDNA profile rejects when the serialization is parsed again.
// Witness shape: Expected holds the serialization; re-parsing it fails with error type
// DomainToASCII, and its host has an xn-- label whose Punycode decoding contains one of the
// three code points.
func aceLabelOfSTD3Fallback(prop string, v *core.Violation) bool {
	href, ok := v.Expected.(string)
	if !ok || href == "" {
		return false
	}
	_, err := url.Parse(href)
	if err == nil || errors.Type(err) != errors.DomainToASCII {
		return false
	}
	for _, label := range strings.Split(hostOfHref(href), ".") {
		if len(label) < 4 || !strings.EqualFold(label[:4], "xn--") {
			continue
		}
		dec, derr := idna.ToUnicode(label)
		if derr != nil && dec == "" {
			continue
		}
		if strings.ContainsAny(dec, "≠≮≯") {
			return true
		}
	}
	return false
}

// KF-B: SearchParams.String() escapes names and values with the URL *query* percent-encode set
// (plus space -> '+') instead of the urlencoded set, so '&', '+', '=' in a name and '%HH'
// are emitted literally and the list does not survive serialize -> parse.  Witness shape:
// Expected is the list (pairs), Observed the list read back; the finding explains the
// violation iff the list contains at least one such delimiter AND the observed list is
// exactly what the urlencoded parser makes of that known serialization.
func serializerUsesQuerySet(prop string, v *core.Violation) bool {
	want, ok1 := v.Expected.([][2]core.S)
	got, ok2 := v.Observed.([][2]core.S)
	if !ok1 || !ok2 {
		return false
	}
	trigger := false
	var sb strings.Builder
	for i, p := range want {
		name, value := string(p[0]), string(p[1])
		if strings.ContainsAny(name, "&+=") || strings.ContainsAny(value, "&+") || hasEscape(name) || hasEscape(value) {
			trigger = true
		}
		if i > 0 {
			sb.WriteByte('&')
		}
		sb.WriteString(knownEscape(name))
		sb.WriteByte('=')
		sb.WriteString(knownEscape(value))
	}
	if !trigger {
		return false
	}
	predicted := refmodel.ParseURLEncoded(sb.String())
	if len(predicted) != len(got) {
		return false
	}
	for i, p := range predicted {
		if p.Name != string(got[i][0]) || p.Value != string(got[i][1]) {
			return false
		}
	}
	return true
}

func hasEscape(s string) bool {
	for i := 0; i+2 < len(s); i++ {
		if s[i] == '%' && isHex(s[i+1]) && isHex(s[i+2]) {
			return true
		}
	}
	return false
}

func isHex(b byte) bool {
	return (b >= '0' && b <= '9') || (b >= 'a' && b <= 'f') || (b >= 'A' && b <= 'F')
}

// knownEscape is the serializer as it is today: space -> '+', otherwise the query set.
func knownEscape(s string) string {
	var sb strings.Builder
	for _, r := range s {
		if r == ' ' {
			sb.WriteByte('+')
		} else {
			sb.WriteString(refmodel.EncodeRune(r, refmodel.QuerySet))
		}
	}
	return sb.String()
}

// hasOption reports whether the case's configuration contains the option.
func hasOption(c *core.Case, name string) bool {
	if c == nil {
		return false
	}
	for _, o := range c.Config {
		if o == name {
			return true
		}
	}
	return false
}

func repeatedDecodeBytes(s string) string {
	for {
		d := string(refmodel.PercentDecode([]byte(s)))
		if d == s {
			return s
		}
		s = d
	}
}

const hexU = "0123456789ABCDEF"

// encodeBytes percent-encodes bytes <= 0x20, > 0x7E and those in extra.
func encodeBytes(s, extra string) string {
	var sb strings.Builder
	for i := 0; i < len(s); i++ {
		b := s[i]
		if b <= 0x20 || b > 0x7E || strings.IndexByte(extra, b) >= 0 {
			sb.WriteByte('%')
			sb.WriteByte(hexU[b>>4])
			sb.WriteByte(hexU[b&15])
		} else {
			sb.WriteByte(b)
		}
	}
	return sb.String()
}

// KF-B seen through a canonicalization profile (C17): profiles that sort the query or decode
// it repeatedly re-serialize the parameter list with the known serializer (KF-B), which is
// not stable for '+', '&', '=' and '%HH'.  The finding explains a non-idempotence iff the
// second canonical string is EXACTLY the first one with its query replaced by what that
// known re-serialization makes of it (prefix and fragment untouched).
func canonicalQueryReserialized(prop string, v *core.Violation) bool {
	s1, ok1 := v.Expected.(string)
	s2, ok2 := v.Observed.(string)
	if !ok1 || !ok2 || s1 == s2 || v.Case == nil {
		return false
	}
	sortKeys := hasOption(v.Case, "sort:keys") || hasOption(v.Case, "profile:WhatWgSortQuery")
	sortParam := hasOption(v.Case, "sort:param")
	repeated := hasOption(v.Case, "repeateddecode")
	if hasOption(v.Case, "sort:keys") && hasOption(v.Case, "sort:param") {
		return false
	}
	if !sortKeys && !sortParam && !repeated {
		return false
	}
	frag := ""
	rest := s1
	if i := strings.IndexByte(rest, '#'); i >= 0 {
		rest, frag = rest[:i], rest[i:]
	}
	qi := strings.IndexByte(rest, '?')
	if qi < 0 {
		return false
	}
	prefix, query := rest[:qi], rest[qi+1:]
	pairs := refmodel.ParseURLEncodedRaw(query)
	if repeated && query != "" {
		for i := range pairs {
			pairs[i].Name = encodeBytes(repeatedDecodeBytes(pairs[i].Name), "#%&=")
			pairs[i].Value = encodeBytes(repeatedDecodeBytes(pairs[i].Value), "#%&=")
		}
	}
	if sortKeys {
		sort.SliceStable(pairs, func(i, j int) bool { return pairs[i].Name < pairs[j].Name })
	}
	if sortParam {
		sort.SliceStable(pairs, func(i, j int) bool { return pairs[i].Name+pairs[i].Value < pairs[j].Name+pairs[j].Value })
	}
	var sb strings.Builder
	for i, p := range pairs {
		if i > 0 {
			sb.WriteByte('&')
		}
		sb.WriteString(knownEscape(p.Name))
		sb.WriteByte('=')
		sb.WriteString(knownEscape(p.Value))
	}
	return s2 == prefix+"?"+sb.String()+frag
}

// KF-B seen through sort-query (C16): sorting re-serializes the list with the known serializer.
// Witness shape: Expected is the query before sorting, Observed the query after; the finding
// explains the changed multiset iff the observed query is EXACTLY the known serialization of
// the (stably sorted) raw urlencoded parse of the query before.
func sortedQueryReserialized(prop string, v *core.Violation) bool {
	before, ok1 := v.Expected.(string)
	after, ok2 := v.Observed.(string)
	if !ok1 || !ok2 || v.Case == nil {
		return false
	}
	pairs := refmodel.ParseURLEncodedRaw(before)
	switch {
	case hasOption(v.Case, "sort:keys"):
		sort.SliceStable(pairs, func(i, j int) bool { return pairs[i].Name < pairs[j].Name })
	case hasOption(v.Case, "sort:param"):
		sort.SliceStable(pairs, func(i, j int) bool { return pairs[i].Name+pairs[i].Value < pairs[j].Name+pairs[j].Value })
	default:
		return false
	}
	var sb strings.Builder
	for i, p := range pairs {
		if i > 0 {
			sb.WriteByte('&')
		}
		sb.WriteString(knownEscape(p.Name))
		sb.WriteByte('=')
		sb.WriteString(knownEscape(p.Value))
	}
	return sb.String() == after
}

// KF-C: repeated percent-decoding is applied to an opaque host as well; when the fully
// decoded host contains a forbidden host code point (a delimiter such as '?', '/', '#', ':')
// the host setter cuts the host there, so the canonical form is not stable.  Witness shape:
// the profile has repeated decoding, the first canonical string is a non-special URL with an
// authority, and its host, percent-decoded to a fixed point, contains a forbidden host code point.
func repeatedDecodingOfOpaqueHost(prop string, v *core.Violation) bool {
	s1, ok := v.Expected.(string)
	if !ok || v.Case == nil || !hasOption(v.Case, "repeateddecode") {
		return false
	}
	i := strings.Index(s1, "://")
	if i < 0 {
		return false
	}
	switch strings.ToLower(s1[:i]) {
	case "http", "https", "ftp", "ws", "wss", "file":
		return false
	}
	host := hostOfHref(s1)
	if strings.HasPrefix(host, "[") {
		return false
	}
	dec := repeatedDecodeBytes(host)
	if dec == host {
		return false
	}
	forbidden := false
	for _, r := range dec {
		if refmodel.IsForbiddenHost(r) {
			forbidden = true
		}
	}
	if !forbidden {
		return false
	}
	// the second canonicalization must differ from the first in the authority only (or fail):
	// scheme and everything after the authority are untouched by this finding
	s2, ok := v.Observed.(string)
	if !ok {
		return false
	}
	j := strings.Index(s2, "://")
	if j < 0 {
		return strings.HasPrefix(s2, "Error") // rejected outright
	}
	afterAuthority := func(s string, k int) string {
		rest := s[k+3:]
		if m := strings.IndexAny(rest, "/?#"); m >= 0 {
			return rest[m:]
		}
		return ""
	}
	return s1[:i] == s2[:j] && afterAuthority(s1, i) == afterAuthority(s2, j)
}

var _ = fmt.Sprint
