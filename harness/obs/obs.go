// Package obs takes observation snapshots of *url.Url values at the public API boundary
// and applies named operations to them.  All monitor comparisons are on snapshots.
package obs

import (
	"fmt"
	"reflect"
	"sort"
	"strings"
	"sync/atomic"

	"github.com/nlnwa/whatwg-url/url"
)

// Snap is everything the public getters say about a URL.
type Snap struct {
	Href        string `json:"href"`
	HrefNoFrag  string `json:"href_nofrag"`
	Protocol    string `json:"protocol"`
	Scheme      string `json:"scheme"`
	Username    string `json:"username"`
	Password    string `json:"password"`
	Host        string `json:"host"`
	Hostname    string `json:"hostname"`
	Port        string `json:"port"`
	DecodedPort int    `json:"decoded_port"`
	Pathname    string `json:"pathname"`
	Search      string `json:"search"`
	Query       string `json:"query"`
	Hash        string `json:"hash"`
	Fragment    string `json:"fragment"`
	Opaque      bool   `json:"opaque_path"`
	Special     bool   `json:"special"`
	IPv4        bool   `json:"is_ipv4"`
	IPv6        bool   `json:"is_ipv6"`
	Str         string `json:"string"`
}

// The order in which Take and TakeTen call the getters is a permutation chosen per case
// (SetOrder, called from core.Ctx.Begin with the case hash): a getter that refreshes or
// fills a cache as a side effect must not always be the first one the monitors call, or
// a stale answer of another getter is never seen (observer effect).  Permutation 0 is the
// declaration order.
var (
	order   atomic.Uint32
	perms20 [64][20]uint8
	perms10 [64][10]uint8
)

func init() {
	x := uint64(0x9E3779B97F4A7C15)
	next := func(n int) int {
		x += 0x9E3779B97F4A7C15
		z := x
		z = (z ^ (z >> 30)) * 0xBF58476D1CE4E5B9
		z = (z ^ (z >> 27)) * 0x94D049BB133111EB
		z ^= z >> 31
		return int(z % uint64(n))
	}
	for k := range perms20 {
		for i := range perms20[k] {
			perms20[k][i] = uint8(i)
		}
		for i := range perms10[k] {
			perms10[k][i] = uint8(i)
		}
		if k == 0 {
			continue
		}
		for i := 19; i > 0; i-- {
			j := next(i + 1)
			perms20[k][i], perms20[k][j] = perms20[k][j], perms20[k][i]
		}
		for i := 9; i > 0; i-- {
			j := next(i + 1)
			perms10[k][i], perms10[k][j] = perms10[k][j], perms10[k][i]
		}
	}
}

// SetOrder selects the getter order for the following Take/TakeTen calls.
func SetOrder(h uint64) { order.Store(uint32(h % 64)) }

// Take reads every getter.
func Take(u *url.Url) Snap {
	var s Snap
	for _, i := range perms20[order.Load()] {
		switch i {
		case 0:
			s.Href = u.Href(false)
		case 1:
			s.HrefNoFrag = u.Href(true)
		case 2:
			s.Protocol = u.Protocol()
		case 3:
			s.Scheme = u.Scheme()
		case 4:
			s.Username = u.Username()
		case 5:
			s.Password = u.Password()
		case 6:
			s.Host = u.Host()
		case 7:
			s.Hostname = u.Hostname()
		case 8:
			s.Port = u.Port()
		case 9:
			s.DecodedPort = u.DecodedPort()
		case 10:
			s.Pathname = u.Pathname()
		case 11:
			s.Search = u.Search()
		case 12:
			s.Query = u.Query()
		case 13:
			s.Hash = u.Hash()
		case 14:
			s.Fragment = u.Fragment()
		case 15:
			s.Opaque = u.OpaquePath()
		case 16:
			s.Special = u.IsSpecialScheme()
		case 17:
			s.IPv4 = u.IsIPv4()
		case 18:
			s.IPv6 = u.IsIPv6()
		case 19:
			s.Str = u.String()
		}
	}
	return s
}

// Ten is href plus the nine WHATWG API getters, in refmodel.TenNames order.
func (s Snap) Ten() [10]string {
	return [10]string{s.Href, s.Protocol, s.Username, s.Password, s.Host, s.Hostname, s.Port, s.Pathname, s.Search, s.Hash}
}

// GetTen reads one of the ten (index as in refmodel.TenNames).
func GetTen(u *url.Url, i int) string {
	switch i {
	case 0:
		return u.Href(false)
	case 1:
		return u.Protocol()
	case 2:
		return u.Username()
	case 3:
		return u.Password()
	case 4:
		return u.Host()
	case 5:
		return u.Hostname()
	case 6:
		return u.Port()
	case 7:
		return u.Pathname()
	case 8:
		return u.Search()
	default:
		return u.Hash()
	}
}

// TakeTen reads only href and the nine getters.
func TakeTen(u *url.Url) [10]string {
	var t [10]string
	for _, i := range perms10[order.Load()] {
		t[i] = GetTen(u, int(i))
	}
	return t
}

// Diff lists the fields in which two snapshots differ.
func Diff(a, b Snap) []string {
	var d []string
	add := func(name string, x, y any) {
		if x != y {
			d = append(d, fmt.Sprintf("%s: %q != %q", name, fmt.Sprint(x), fmt.Sprint(y)))
		}
	}
	add("href", a.Href, b.Href)
	add("href(true)", a.HrefNoFrag, b.HrefNoFrag)
	add("protocol", a.Protocol, b.Protocol)
	add("scheme", a.Scheme, b.Scheme)
	add("username", a.Username, b.Username)
	add("password", a.Password, b.Password)
	add("host", a.Host, b.Host)
	add("hostname", a.Hostname, b.Hostname)
	add("port", a.Port, b.Port)
	add("decodedPort", a.DecodedPort, b.DecodedPort)
	add("pathname", a.Pathname, b.Pathname)
	add("search", a.Search, b.Search)
	add("query", a.Query, b.Query)
	add("hash", a.Hash, b.Hash)
	add("fragment", a.Fragment, b.Fragment)
	add("opaquePath", a.Opaque, b.Opaque)
	add("special", a.Special, b.Special)
	add("isIPv4", a.IPv4, b.IPv4)
	add("isIPv6", a.IPv6, b.IPv6)
	add("string", a.Str, b.Str)
	return d
}

// DiffTen lists differing entries of two Ten arrays.
func DiffTen(names [10]string, want, got [10]string) []string {
	var d []string
	for i := range want {
		if want[i] != got[i] {
			d = append(d, fmt.Sprintf("%s: want %q got %q", names[i], want[i], got[i]))
		}
	}
	return d
}

// ApplySetter calls the named WHATWG API setter.
func ApplySetter(u *url.Url, name, v string) {
	switch name {
	case "protocol":
		u.SetProtocol(v)
	case "username":
		u.SetUsername(v)
	case "password":
		u.SetPassword(v)
	case "host":
		u.SetHost(v)
	case "hostname":
		u.SetHostname(v)
	case "port":
		u.SetPort(v)
	case "pathname":
		u.SetPathname(v)
	case "search":
		u.SetSearch(v)
	case "hash":
		u.SetHash(v)
	default:
		if m, ok := extraSetterIndex[name]; ok {
			reflect.ValueOf(u).Method(m).Call([]reflect.Value{reflect.ValueOf(v)})
			return
		}
		panic("obs: unknown setter " + name)
	}
}

// ExtraSetters lists, as "x:<Method>", the exported methods of *url.Url named Set… that take
// exactly one string and are not among the nine setters the harness was written against:
// a setter added to the library later.  The list is empty on the tree the harness was built
// for; when it is not, the state monitors (C02, C04, C13, C19) drive those methods as
// further steps of their histories — every state a public setter reaches is a reachable state.
var ExtraSetters []string
var extraSetterIndex = map[string]int{}

func init() {
	known := map[string]bool{"SetProtocol": true, "SetUsername": true, "SetPassword": true, "SetHost": true, "SetHostname": true,
		"SetPort": true, "SetPathname": true, "SetSearch": true, "SetHash": true}
	t := reflect.TypeOf((*url.Url)(nil))
	for i := 0; i < t.NumMethod(); i++ {
		m := t.Method(i)
		if !strings.HasPrefix(m.Name, "Set") || known[m.Name] || m.Type.NumIn() != 2 || m.Type.In(1).Kind() != reflect.String || m.Type.IsVariadic() {
			continue
		}
		ExtraSetters = append(ExtraSetters, "x:"+m.Name)
		extraSetterIndex["x:"+m.Name] = i
	}
	sort.Strings(ExtraSetters)
}

// IsSetter reports whether name is one of the nine setters.
func IsSetter(name string) bool {
	switch name {
	case "protocol", "username", "password", "host", "hostname", "port", "pathname", "search", "hash":
		return true
	}
	return false
}
