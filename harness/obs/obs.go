// Package obs takes observation snapshots of *url.Url values at the public API boundary
// and applies named operations to them.  All monitor comparisons are on snapshots.
package obs

import (
	"fmt"

	"github.com/nlnwa/whatwg-url/url"
)

// Snap is everything the public getters say about a URL.
type Snap struct {
	Href        string `json:"href"`
	HrefNoFrag  string `json:"href_nofrag"`
	Protocol    string `json:"protocol"`
	Scheme      string `json:"scheme"`
	Username    string `json:"username"`
	Password    string `json:"password"`
	Host        string `json:"host"`
	Hostname    string `json:"hostname"`
	Port        string `json:"port"`
	DecodedPort int    `json:"decoded_port"`
	Pathname    string `json:"pathname"`
	Search      string `json:"search"`
	Query       string `json:"query"`
	Hash        string `json:"hash"`
	Fragment    string `json:"fragment"`
	Opaque      bool   `json:"opaque_path"`
	Special     bool   `json:"special"`
	IPv4        bool   `json:"is_ipv4"`
	IPv6        bool   `json:"is_ipv6"`
	Str         string `json:"string"`
}

// Take reads every getter.
func Take(u *url.Url) Snap {
	return Snap{
		Href: u.Href(false), HrefNoFrag: u.Href(true), Protocol: u.Protocol(), Scheme: u.Scheme(),
		Username: u.Username(), Password: u.Password(), Host: u.Host(), Hostname: u.Hostname(),
		Port: u.Port(), DecodedPort: u.DecodedPort(), Pathname: u.Pathname(), Search: u.Search(),
		Query: u.Query(), Hash: u.Hash(), Fragment: u.Fragment(), Opaque: u.OpaquePath(),
		Special: u.IsSpecialScheme(), IPv4: u.IsIPv4(), IPv6: u.IsIPv6(), Str: u.String(),
	}
}

// Ten is href plus the nine WHATWG API getters, in refmodel.TenNames order.
func (s Snap) Ten() [10]string {
	return [10]string{s.Href, s.Protocol, s.Username, s.Password, s.Host, s.Hostname, s.Port, s.Pathname, s.Search, s.Hash}
}

// TakeTen reads only href and the nine getters.
func TakeTen(u *url.Url) [10]string {
	return [10]string{u.Href(false), u.Protocol(), u.Username(), u.Password(), u.Host(), u.Hostname(),
		u.Port(), u.Pathname(), u.Search(), u.Hash()}
}

// Diff lists the fields in which two snapshots differ.
func Diff(a, b Snap) []string {
	var d []string
	add := func(name string, x, y any) {
		if x != y {
			d = append(d, fmt.Sprintf("%s: %q != %q", name, fmt.Sprint(x), fmt.Sprint(y)))
		}
	}
	add("href", a.Href, b.Href)
	add("href(true)", a.HrefNoFrag, b.HrefNoFrag)
	add("protocol", a.Protocol, b.Protocol)
	add("scheme", a.Scheme, b.Scheme)
	add("username", a.Username, b.Username)
	add("password", a.Password, b.Password)
	add("host", a.Host, b.Host)
	add("hostname", a.Hostname, b.Hostname)
	add("port", a.Port, b.Port)
	add("decodedPort", a.DecodedPort, b.DecodedPort)
	add("pathname", a.Pathname, b.Pathname)
	add("search", a.Search, b.Search)
	add("query", a.Query, b.Query)
	add("hash", a.Hash, b.Hash)
	add("fragment", a.Fragment, b.Fragment)
	add("opaquePath", a.Opaque, b.Opaque)
	add("special", a.Special, b.Special)
	add("isIPv4", a.IPv4, b.IPv4)
	add("isIPv6", a.IPv6, b.IPv6)
	add("string", a.Str, b.Str)
	return d
}

// DiffTen lists differing entries of two Ten arrays.
func DiffTen(names [10]string, want, got [10]string) []string {
	var d []string
	for i := range want {
		if want[i] != got[i] {
			d = append(d, fmt.Sprintf("%s: want %q got %q", names[i], want[i], got[i]))
		}
	}
	return d
}

// ApplySetter calls the named WHATWG API setter.
func ApplySetter(u *url.Url, name, v string) {
	switch name {
	case "protocol":
		u.SetProtocol(v)
	case "username":
		u.SetUsername(v)
	case "password":
		u.SetPassword(v)
	case "host":
		u.SetHost(v)
	case "hostname":
		u.SetHostname(v)
	case "port":
		u.SetPort(v)
	case "pathname":
		u.SetPathname(v)
	case "search":
		u.SetSearch(v)
	case "hash":
		u.SetHash(v)
	default:
		panic("obs: unknown setter " + name)
	}
}

// IsSetter reports whether name is one of the nine setters.
func IsSetter(name string) bool {
	switch name {
	case "protocol", "username", "password", "host", "hostname", "port", "pathname", "search", "hash":
		return true
	}
	return false
}
