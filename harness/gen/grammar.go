package gen

import (
	"fmt"
	"math/rand/v2"
	"strconv"
	"strings"
)

var specialSchemes = []string{"http", "https", "ftp", "ws", "wss", "file"}

func mixCase(r *rand.Rand, s string) string {
	b := []byte(s)
	for i, c := range b {
		if r.IntN(2) == 0 {
			if c >= 'a' && c <= 'z' {
				b[i] = c - 0x20
			} else if c >= 'A' && c <= 'Z' {
				b[i] = c + 0x20
			}
		}
	}
	return string(b)
}

// Scheme returns a scheme part (without the colon); may be empty or invalid.
func Scheme(r *rand.Rand) string {
	switch r.IntN(20) {
	case 0, 1, 2, 3, 4, 5, 6, 7:
		return mixCase(r, Pick(r, specialSchemes))
	case 8, 9, 10:
		return Pick(r, []string{"a", "foo", "sc", "non-special", "git+ssh", "x.y", "javascript", "mailto", "data", "about", "blob", "gopher", "urn"})
	case 11:
		return mixCase(r, "file")
	case 12:
		return strings.Repeat("a", 1+r.IntN(40))
	case 13:
		return Pick(r, []string{"a+b", "a-b", "a.b", "a1", "h2"})
	case 14:
		if r.IntN(2) == 0 {
			return Confuse(r, Pick(r, []string{"http", "a", "ak", "his", "file", "ws", "a1", "a+b", "git"}))
		}
		return Pick(r, []string{"1a", "+a", "-a", ".a", "é", "a b", "a_b", "a/b", "a%41", ""})
	case 15:
		return mixCase(r, Pick(r, []string{"http", "https"}))
	default:
		return Pick(r, specialSchemes)
	}
}

var separators = []string{":", "://", "://", "://", "://", ":/", ":\\\\", ":///", ":////", ":/\\", ":\\/", "", "//", ":?", ":#"}

var unicodeSamples = []string{"é", "ü", "ñ", "ß", "ς", "İ", "ı", "日本", "你好", "🌈", "𐍈", "\u00ad", "\u200d", "\u200c", "\u0301", "ａ", "Ａ", "１", "．", "。",
	"≠", "≮", "≯", "א", "ا", "\ufffd", "\ufeff", "\u00a0", "\u0080", "\u009f", "\u2028", "\ufdd0", "\uffff", "\U0010ffff", "\U000e0041", "℀", "㎒", "ǆ", "ﬁ", "\u0131", "\u212a", "\u1e9e",
	"\u007f", "\u07ff", "\u0800", "\ud7ff", "\ue000", "\ufffe", "\U00010000", "\U0001ffff", "\U000fffff"} // + UTF-8 length boundaries, surrogate neighbours, noncharacters

var invalidBytes = []string{"\xff", "\xc3", "\xed\xa0\x80", "\xf4\x90\x80\x80", "\xc0\xaf", "\xe2\x82", "\x80", "\xfe\xff", "\xc3\xc3"}

// userinfo part (without the @).
func Userinfo(r *rand.Rand) string {
	switch r.IntN(12) {
	case 0:
		return "u"
	case 1:
		return "u:p"
	case 2:
		return ":"
	case 3:
		return ":p"
	case 4:
		return "u:"
	case 5:
		return "u:p:q"
	case 6:
		return "a@b"
	case 7:
		return Pick(r, []string{"u/x", "u?x", "u#x", "u\\x", "u[x", "u]x", "u^x", "u|x", "u;x", "u=x", "u%41", "u%", "u x", "u\"<>`{}"})
	case 8:
		return Pick(r, unicodeSamples) + ":" + Pick(r, unicodeSamples)
	case 9:
		return "@"
	case 10:
		return token(r) + ":" + token(r)
	default:
		return "user:pass"
	}
}

var ldhLabels = []string{"a", "b", "h", "example", "com", "org", "www", "x-y", "a1", "1a", "-a", "a-", "a--b", "ab--c", "localhost", "xn--nxasmq6b", "xn--a", "xn--", "XN--NXASMQ6B", "xn--ab-miv", "xn--fa-hia", "xn--zca", "xn--xn----", "xn--xn---", "xn--abc-", "xn--xn--a-", "Xn--Xn--nxasmq6b-",
	"test", "EXAMPLE", "ExAmPlE", "a_b", "a!b", "a$b", "a&b", "a'b", "a(b)", "a*b", "a+b", "a,b", "a;b", "a=b", "a~b", "a{b}", "a\"b", "a`b"}

var numberLabels = []string{"0", "1", "7", "9", "10", "127", "255", "256", "0x", "0X", "0x0", "0x7f", "0xff", "0x100", "0XFF", "00", "01", "07", "08", "09", "010", "0377", "0400",
	"65535", "65536", "16777215", "16777216", "4294967295", "4294967296", "0xffffffff", "0x100000000", "037777777777", "040000000000", "99999999999999999999",
	"0xfffffffffffffffffff", "0x000000007f", "0x00000000000000000001", "0000000000000012", "00000000000000000000377", "000000000000000000000000001", "-1", "+1", "1-", "0x+f", "0x-1", "1e3", "1_0", "0b1", "0o7", "0xg", "1a", "a1", "0x1g", "١", "１"}

// IPv4Host returns an IPv4-looking host string (valid or not).
func IPv4Host(r *rand.Rand) string {
	n := 1 + r.IntN(5)
	if r.IntN(10) == 0 {
		n = 6
	}
	parts := make([]string, n)
	for i := range parts {
		switch r.IntN(6) {
		case 0:
			parts[i] = strconv.Itoa(r.IntN(300))
		case 1:
			parts[i] = "0x" + strings.Repeat("0", []int{0, 0, 0, 5, 9, 20}[r.IntN(6)]) + strconv.FormatInt(int64(r.IntN(300)), 16)
		case 2:
			parts[i] = "0" + strings.Repeat("0", []int{0, 0, 0, 5, 12, 25}[r.IntN(6)]) + strconv.FormatInt(int64(r.IntN(300)), 8)
		case 3:
			parts[i] = ""
		default:
			parts[i] = Pick(r, numberLabels)
		}
	}
	s := strings.Join(parts, ".")
	switch r.IntN(10) {
	case 0:
		s += "."
	case 1:
		s += ".."
	case 2:
		s = "." + s
	case 3:
		s = Pick(r, ldhLabels) + "." + s
	}
	if r.IntN(25) == 0 {
		s = Confuse(r, s)
	}
	return s
}

var ipv6Pieces = []string{"", "0", "1", "f", "A", "10", "0db8", "ffff", "FFFF", "00000", "g", "0000", "00", "1234", "abcd"}
var ipv4Tails = []string{"1.2.3.4", "0.0.0.0", "255.255.255.255", "192.168.0.1", "01.2.3.4", "1.02.3.4", "1.2.3.04", "256.1.1.1", "1.1.1.256", "1.2.3", "1.2.3.4.5", "1..2.3", "1.2.3.", ".1.2.3", "1.2.3.a", "0x1.2.3.4", "1.2.3.4 ", "001.1.1.1", "1.2.3.999", "25.5.2.55", "0.0.0.00", "1.2.3.9999999999999999999", "1.2.3.18446744073709551617", "1.18446744073709551616.3.4", "1.2.340282366920938463463374607431768211457.4", "1.2.3.0000000000000000000004", "1.2.3.4294967297"}

// IPv6Text returns the text between brackets (valid or not).
func IPv6Text(r *rand.Rand) string {
	if r.IntN(20) == 0 {
		// the longest legal spellings: every piece with four digits (zero-padded), with and without
		// a dotted tail of three-digit octets (39 and 45 characters) - and one piece more or less
		k := Pick(r, []int{8, 8, 6, 6, 7, 5, 9})
		pieces := make([]string, k)
		for i := range pieces {
			pieces[i] = fmt.Sprintf("%04x", r.IntN(0x10000))
			if r.IntN(2) == 0 {
				pieces[i] = strings.ToUpper(pieces[i])
			}
		}
		s := strings.Join(pieces, ":")
		if k <= 7 && r.IntN(3) != 0 {
			s += fmt.Sprintf(":%d.%d.%d.%d", 100+r.IntN(156), 100+r.IntN(156), 100+r.IntN(156), 100+r.IntN(156))
		}
		return s
	}
	n := r.IntN(10)
	pieces := make([]string, n)
	for i := range pieces {
		if r.IntN(3) == 0 {
			pieces[i] = strconv.FormatInt(int64(r.IntN(0x10000)), 16)
		} else {
			pieces[i] = Pick(r, ipv6Pieces)
		}
	}
	// insert "::" 0..2 times by emptying positions / joining
	s := strings.Join(pieces, ":")
	k := r.IntN(4)
	if k >= 2 {
		k -= 2 // 0,1,0,1 -> mostly 0 or 1
	}
	if r.IntN(12) == 0 {
		k = 2
	}
	for ; k > 0; k-- {
		// place "::" at a random piece boundary
		idx := []int{0}
		for i := 0; i < len(s); i++ {
			if s[i] == ':' {
				idx = append(idx, i)
			}
		}
		idx = append(idx, len(s))
		p := Pick(r, idx)
		if p < len(s) && s[p] == ':' {
			s = s[:p] + "::" + s[p+1:]
		} else {
			s = s[:p] + "::" + s[p:]
		}
	}
	if r.IntN(4) == 0 {
		t := Pick(r, ipv4Tails)
		if s == "" || strings.HasSuffix(s, ":") {
			s += t
		} else {
			s += ":" + t
		}
	}
	if r.IntN(15) == 0 {
		s += Pick(r, []string{"%25eth0", "%eth0", "%25", "%", "%251", "%2500", "%25%25", " ", "/64", "]", "[", ":", ".", "x"})
	}
	if r.IntN(25) == 0 {
		s = Confuse(r, s)
	}
	return s
}

// RandomIPv6 returns a valid, randomly spelled address built from 8 random pieces.
func RandomIPv6(r *rand.Rand) string {
	var p [8]string
	for i := range p {
		v := 0
		switch r.IntN(4) {
		case 0:
			v = 0
		case 1:
			v = r.IntN(16)
		default:
			v = r.IntN(0x10000)
		}
		p[i] = strconv.FormatInt(int64(v), 16)
		if r.IntN(4) == 0 {
			p[i] = fmt.Sprintf("%04x", v)
		}
		if r.IntN(4) == 0 {
			p[i] = strings.ToUpper(p[i])
		}
	}
	return strings.Join(p[:], ":")
}

func bracketArrangement(r *rand.Rand, text string) string {
	switch r.IntN(16) {
	case 0:
		return "[" + text
	case 1:
		return text + "]"
	case 2:
		return "[[" + text + "]]"
	case 3:
		return "[" + text + "]]"
	case 4:
		return "[[" + text + "]"
	case 5:
		return "[" + text + "]x"
	case 6:
		return "x[" + text + "]"
	case 7:
		return "[]" + "[" + text + "]"
	case 8:
		return "[" + text + "][]"
	case 9:
		return "[" + text + "[]"
	default:
		return "[" + text + "]"
	}
}

// DomainHost returns a domain-looking host.
func DomainHost(r *rand.Rand) string {
	n := 1 + r.IntN(4)
	labels := make([]string, n)
	for i := range labels {
		switch r.IntN(12) {
		case 0:
			labels[i] = Pick(r, unicodeSamples) + Pick(r, ldhLabels)
		case 1:
			labels[i] = Pick(r, ldhLabels) + Pick(r, unicodeSamples)
		case 2:
			labels[i] = Pick(r, numberLabels)
		case 3:
			labels[i] = ""
		case 4:
			if C != nil && len(C.IDNAInputs) > 0 {
				labels[i] = Pick(r, C.IDNAInputs)
			} else {
				labels[i] = "x"
			}
		case 5:
			// an LDH label (often an ACE label, valid or bogus) in a compatibility spelling that the
			// IDNA mapping folds back to ASCII: fullwidth forms, ignorable code points in between
			labels[i] = Widen(r, Pick(r, ldhLabels), []float64{0.15, 0.5, 1}[r.IntN(3)])
		default:
			labels[i] = Pick(r, ldhLabels)
		}
	}
	s := strings.Join(labels, ".")
	switch r.IntN(12) {
	case 0:
		s += "."
	case 1:
		s = mixCase(r, s)
	case 2:
		s = PercentEncodeSome(r, s, 0.3)
	case 3:
		s = PercentEncodeSome(r, s, 1.0)
	}
	return s
}

// Widen replaces ASCII characters by their fullwidth forms (U+FF01..U+FF5E) with probability p and
// sometimes inserts a code point the IDNA mapping ignores (soft hyphen, variation selector).
func Widen(r *rand.Rand, s string, p float64) string {
	var sb strings.Builder
	for _, c := range s {
		if c > 0x20 && c < 0x7f && r.Float64() < p {
			sb.WriteRune(c - 0x21 + 0xFF01)
		} else {
			sb.WriteRune(c)
		}
		if r.IntN(12) == 0 {
			sb.WriteString(Pick(r, []string{"\u00ad", "\ufe0f", "\u200d"}))
		}
	}
	return sb.String()
}

// PercentEncodeSome percent-encodes each byte of whole code points with probability p.
func PercentEncodeSome(r *rand.Rand, s string, p float64) string {
	var sb strings.Builder
	for _, c := range s {
		if r.Float64() < p {
			for _, b := range []byte(string(c)) {
				if r.IntN(2) == 0 {
					fmt.Fprintf(&sb, "%%%02X", b)
				} else {
					fmt.Fprintf(&sb, "%%%02x", b)
				}
			}
		} else {
			sb.WriteRune(c)
		}
	}
	return sb.String()
}

var forbiddenHostish = []string{" ", "#", "/", ":", "<", ">", "?", "@", "[", "\\", "]", "^", "|", "%", "\x00", "\t", "\n", "\x7f", "\x1f", "%00", "%20", "%23", "%2f", "%3A", "%40", "%5b", "%5C", "%7C", "%25", "%7f"}

// Host returns a host part of any kind.
func Host(r *rand.Rand) string {
	switch r.IntN(16) {
	case 0, 1, 2, 3:
		return DomainHost(r)
	case 4, 5, 6:
		return IPv4Host(r)
	case 7, 8:
		return bracketArrangement(r, IPv6Text(r))
	case 9:
		return "[" + RandomIPv6(r) + "]"
	case 10:
		return ""
	case 11:
		h := DomainHost(r)
		p := r.IntN(len(h) + 1)
		return h[:p] + Pick(r, forbiddenHostish) + h[p:]
	case 12:
		return Pick(r, []string{"localhost", "LOCALHOST", "loc%61lhost", "localhost.", "C:", "C|", "c:", "%43:", "."})
	case 13:
		return PercentEncodeSome(r, IPv4Host(r), 0.4)
	case 14:
		return Pick(r, invalidBytes) + DomainHost(r)
	default:
		return Pick(r, ldhLabels)
	}
}

var ports = []string{"", "0", "1", "21", "80", "443", "8080", "65535", "65536", "00080", "000000", "99999", "4294967377", "99999999999999999999", "8a", "a", "-1", "+80", " 80", "80 ", "8 0", "٨٠", "0x50"}

// Port returns a port part (without the colon).
func Port(r *rand.Rand) string {
	if r.IntN(3) == 0 {
		return strconv.Itoa(r.IntN(70000))
	}
	if r.IntN(20) == 0 {
		return Confuse(r, strconv.Itoa(r.IntN(70000)))
	}
	return Pick(r, ports)
}

var pathSegs = []string{"", "", "a", "b", "c", "foo", "bar", ".", "..", "%2e", "%2E", "%2e%2e", ".%2e", "%2E.", "%2e%2E", "...", ".a", "a.", "C:", "C|", "c:", "c|", "C%3A", "%43:", "C::", "CC:",
	" ", "%20", "%", "%4", "%zz", "%41", "%00", "%2f", "%5c", "a b", "a\"b", "a<b>", "a`b", "a{b}", "a|b", "a^b", "a'b", "a;b=c", "a:b", "a@b", "a[b]", "a!$&'()*+,;=", "~-._", "é", "日本", "🌈", "�", "\u007f", "\u0000", "\u001f"}

// PathSeg returns a path segment.
func PathSeg(r *rand.Rand) string {
	switch r.IntN(10) {
	case 0:
		return Pick(r, unicodeSamples)
	case 1:
		return token(r)
	case 2:
		return Pick(r, invalidBytes)
	default:
		return Pick(r, pathSegs)
	}
}

// Path returns a path part including its leading separator(s).
func Path(r *rand.Rand) string {
	n := r.IntN(6)
	if n == 0 {
		return Pick(r, []string{"", "", "/", "\\", "//"})
	}
	var sb strings.Builder
	for i := 0; i < n; i++ {
		switch r.IntN(12) {
		case 0:
			sb.WriteString("\\")
		case 1:
			sb.WriteString("//")
		default:
			sb.WriteString("/")
		}
		sb.WriteString(PathSeg(r))
	}
	if r.IntN(4) == 0 {
		sb.WriteString("/")
	}
	return sb.String()
}

var queryBits = []string{"a", "b", "a=b", "a=b&c=d", "&", "=", "&&", "a=", "=b", "a==b", "+", "a+b", "%2B", "%26", "%3D", "%", "%4", "%zz", "'", "\"", "<", ">", "`", "{", "}", "|", "^", " ", "#", "?", "/", "\\", "é", "🌈", "\u0000", "\u007f", ";", "a;b", "[]", "a[]=1", "%41", "%C3%A9", "%ff",
	":~:", ":~:text=a", "a:~:text=b,c", "!", "#!", ";jsessionid=1", "%23", "%23%23", "##", "%2523", "%27", "%2527", "~", "%7E", "%7e", "%EF%BB%BF", "\ufeff", "%E2%80%8B", "..", "/../", "@", "://", "%25", "%2525"}

// QueryOrFragment returns text for a query or fragment (without the delimiter).
func QueryOrFragment(r *rand.Rand) string {
	n := r.IntN(5)
	var sb strings.Builder
	for i := 0; i < n; i++ {
		switch r.IntN(8) {
		case 0:
			sb.WriteString(Pick(r, unicodeSamples))
		case 1:
			sb.WriteString(Pick(r, invalidBytes))
		case 2:
			sb.WriteString(token(r))
		default:
			sb.WriteString(Pick(r, queryBits))
		}
	}
	return sb.String()
}

var letters = "abcdefghijklmnopqrstuvwxyzABCDEFGHIJKLMNOPQRSTUVWXYZ0123456789-._~"

func token(r *rand.Rand) string {
	n := 1 + r.IntN(8)
	b := make([]byte, n)
	for i := range b {
		b[i] = letters[r.IntN(len(letters))]
	}
	return string(b)
}

var wsDecor = []string{" ", "\t", "\n", "\r", "\x00", "\x1f", "  ", "\t\n", " ", "\x0b", "\x0c"}

// Decorate adds leading/trailing C0/space and embedded tab/CR/LF.
func Decorate(r *rand.Rand, s string) string {
	if r.IntN(8) == 0 {
		s = Pick(r, wsDecor) + s
	}
	if r.IntN(8) == 0 {
		s = s + Pick(r, wsDecor)
	}
	if r.IntN(8) == 0 && len(s) > 0 {
		k := 1 + r.IntN(3)
		for ; k > 0; k-- {
			p := r.IntN(len(s) + 1)
			s = s[:p] + Pick(r, []string{"\t", "\n", "\r"}) + s[p:]
		}
	}
	return s
}

// GrammarURL assembles a URL (or reference) from independently chosen parts (W-grammar).
func GrammarURL(r *rand.Rand) string {
	var sb strings.Builder
	scheme := Scheme(r)
	sep := Pick(r, separators)
	if r.IntN(12) == 0 {
		// scheme-less reference
		scheme, sep = "", Pick(r, []string{"", "/", "//", "\\", "\\\\", "///", "?", "#", "./", "../"})
	}
	sb.WriteString(scheme)
	sb.WriteString(sep)
	authority := strings.Contains(sep, "//") || strings.Contains(sep, "\\\\") || strings.Contains(sep, "/\\") || strings.Contains(sep, "\\/") || r.IntN(6) == 0
	if authority {
		if r.IntN(4) == 0 {
			sb.WriteString(Userinfo(r))
			sb.WriteString("@")
		}
		sb.WriteString(Host(r))
		if r.IntN(3) == 0 {
			sb.WriteString(":")
			sb.WriteString(Port(r))
		}
	}
	sb.WriteString(Path(r))
	if r.IntN(3) == 0 {
		sb.WriteString("?")
		sb.WriteString(QueryOrFragment(r))
	}
	if r.IntN(3) == 0 {
		sb.WriteString("#")
		sb.WriteString(QueryOrFragment(r))
	}
	return Decorate(r, sb.String())
}
