package gen

import (
	"fmt"
	"math/rand/v2"
	"strings"
)

var Setters = []string{"protocol", "username", "password", "host", "hostname", "port", "pathname", "search", "hash"}

var hostileValues = []string{"", " ", "\t", "\n", "\x00", ":", "/", "//", "?", "#", "@", "\\", "%", "[", "]", "a b", "é", "🌈", "\xff", "\xc3", "a\nb", "a\tb", " a ", "x:y", "x/y", "x?y", "x#y", "x@y",
	"%41", "%", "%zz", "%00", "..", ".", "%2e", "file", "file:", "http", "https:", "a", "C|", "C:", "localhost", "0", "80", "443", "65536", "[::1]", "1.2.3.4", "0x7f.1", "xn--", "-1"}

var setterPools = map[string][]string{
	"protocol": {"http", "https", "ftp", "ws", "wss", "file", "a", "b", "foo", "HTTP", "hTTps:", "http:", "https://x", "file:", "a:b", "a+b", "a-b.c", "1a", "+a", "é", "a é", "", ":", "a:", "http\n", "ht\ttp", " http", "http ", "gopher", "javascript", "mailto", "data", "wss:", "ws\x00", "postgres", "x", "a-very.long+scheme-name9", "POSTGRES:"},
	"username": {"", "u", "user", "u:p", "u@v", "u/v", "u?v", "u#v", "u v", "ü", "%41", "%", "%zz", "\x00", "\x7f", "a\tb", "a\nb", "'\"<>`{}", "[]^|\\", ";=", "~-._!$&()*+,", "\xff"},
	"password": {"", "p", "pass", "p:q", "p@q", "p/q", "p?q", "p#q", "p q", "π", "%41", "%", "%zz", "\x00", "\x7f", "a\tb", "a\nb", "'\"<>`{}", "[]^|\\", ";=", "~-._!$&()*+,", "\xff"},
	"host": {"", "h", "example.com", "EXAMPLE.com", "h:80", "h:443", "h:8080", "h:", "h:0", "h:65536", "h:8a", "h:80/x", "h/x", "h?x", "h#x", "h\\x", "h@x", ":80", "u@h", "u:p@h:1", "[::1]", "[::1]:80", "[::1]:443", "[[::1]", "[::1[]", "[::1]]", "[::1", "::1]",
		"1.2.3.4", "0x7f.1", "1.2.3.4:5", "256.1.1.1", "1.2.3.4.5", "-1", "a b", "a%20b", "a%41", "a<b", "a^b", "a|b", "%", "ü.com", "xn--nxasmq6b", "xn--", "xn--xn----", "xn--abc-", "a≠b", "localhost", "LOCALHOST", "loc%61lhost", "localhost:80", "C:", "C|", "c:", "\tx", "x\n", "x y", "a.b.", "a..b", ".", "..", "09", "0x", "1.2.3.4.", "h:00080", "h:٨٠", "\xff", "a\xffb"},
	"hostname": {"", "h", "example.com", "EXAMPLE.com", "h:80", "h:", ":80", "h/x", "h?x", "h#x", "h\\x", "h@x", "u@h", "[::1]", "[::1]:80", "[[::1]", "[::1[]", "[::1]]", "[::1", "::1]", "[1:0:0:2::3]",
		"1.2.3.4", "0x7f.1", "256.1.1.1", "1.2.3.4.5", "-1", "a b", "a%20b", "a%41", "a<b", "a^b", "a|b", "%", "ü.com", "xn--nxasmq6b", "xn--", "xn--xn----", "xn--abc-", "a≠b", "localhost", "LOCALHOST", "loc%61lhost", "C:", "C|", "\tx", "x\n", "x y", "a.b.", "a..b", ".", "..", "09", "0x", "1.2.3.4.", "\xff", "a\xffb", "example.org"},
	"port": {"", "0", "1", "21", "80", "443", "8080", "65535", "65536", "99999", "00080", "00000", "000001", "99999999999999999999", "8a", "a", "a8", "-1", "+80", " 80", "80 ", "8 0", "80/x", "80?x", "80#x", "80\\x", "80:", ":80", "٨٠", "0x50", "\t80", "8\n0", "80\x00", "8@0", "\xff"},
	"pathname": {"", "/", "//", "///", "a", "/a", "a/b", "/a/b/", "/a//b", "\\a", "/a\\b", ".", "..", "/.", "/..", "/./", "/../", "/a/./b", "/a/../b", "/a/..", "/%2e", "/%2E%2e", "/.%2e/x", "//.", "//..", "/.//x", "/..//x", "//x", "?", "#", "/a?b", "/a#b", "?a", "#a",
		"C|", "/C|", "/C|/x", "C:", "/c:/..", "/C|/../x", "C|/x", " ", "/ ", "a b", "/é", "/🌈", "%", "/%4", "/%zz", "/%41", "/%00", "'\"<>`{}|^", "\t/a", "/a\n", "\x00", "\x7f", "\xff", "/\xc3", "a:b", "/a:b", "@", "[x]", ";a=b"},
	"search": {"", "?", "??", "a", "?a", "a=b", "?a=b&c=d", "a&b", "&", "=", "&&", "a=", "=b", "a==b", "+", "a+b", "%2B", "1%2B1", "%26", "%3D", "%", "%4", "%zz", "'", "\"", "<>", "`{}|^", " ", "  ", "a b", "#", "a#b", "?#", "/", "\\", "é", "🌈", "\x00", "\x7f", "\t", "a\nb", ";", "a[]=1", "%41", "%C3%A9", "%ff", "\xff", "a=b ", " a=b", "a=1&a=2&b=3", "b=1&a=2&a=1", "a&a&a", "%61=1&a=2"},
	"hash":   {":~:text=a", "a:~:text=b", "#:~:", "###a", "%23%23", "", "#", "##", "a", "#a", "a#b", "#a#b", " ", "  ", "a b", "'", "\"", "<>", "`", "{}|^", "?", "/", "\\", "%", "%4", "%zz", "%41", "%00", "é", "🌈", "\x00", "\x7f", "\t", "a\nb", "\xff", "a ", " a"},
}

// SetterValue draws a value for the named setter: WPT values, the per-setter pool,
// hostile strings, grammar parts of the matching kind, occasionally mutated.
func SetterValue(r *rand.Rand, setter string) string {
	var v string
	switch r.IntN(10) {
	case 0, 1, 2:
		if C != nil && len(C.SetterValues[setter]) > 0 {
			v = Pick(r, C.SetterValues[setter])
		} else {
			v = Pick(r, setterPools[setter])
		}
	case 3, 4, 5:
		v = Pick(r, setterPools[setter])
	case 6:
		v = Pick(r, hostileValues)
	default:
		switch setter {
		case "protocol":
			v = Scheme(r)
			if r.IntN(3) == 0 {
				v += ":"
			}
		case "username", "password":
			v = Userinfo(r)
		case "host":
			v = Host(r)
			if r.IntN(3) == 0 {
				v += ":" + Port(r)
			}
		case "hostname":
			v = Host(r)
		case "port":
			v = Port(r)
		case "pathname":
			v = Path(r)
		case "search":
			v = QueryOrFragment(r)
			if r.IntN(3) == 0 {
				v = "?" + v
			}
		case "hash":
			v = QueryOrFragment(r)
			if r.IntN(3) == 0 {
				v = "#" + v
			}
		}
	}
	if r.IntN(8) == 0 {
		v = Mutate(r, v)
	}
	return v
}

// SetterPool returns the curated pool of a setter (pairwise-exhaustive block of C05).
func SetterPool(setter string) []string {
	out := append([]string(nil), setterPools[setter]...)
	if C != nil {
		seen := map[string]bool{}
		for _, v := range out {
			seen[v] = true
		}
		for _, v := range C.SetterValues[setter] {
			if !seen[v] {
				seen[v] = true
				out = append(out, v)
			}
		}
	}
	return out
}

// StartURL draws a parseable-ish start URL for histories.
func StartURL(r *rand.Rand) string {
	switch r.IntN(10) {
	case 0, 1, 2:
		return Pick(r, BasePool)
	case 3, 4:
		if C != nil && len(C.SetterStarts) > 0 {
			return Pick(r, C.SetterStarts)
		}
		return Pick(r, BasePool)
	case 5:
		return Pick(r, StartPool)
	case 6, 7:
		return GrammarURL(r)
	default:
		return AnyInput(r)
	}
}

// StartPool: 30 start URLs for the pairwise block of C05 (every base kind).
var StartPool = []string{
	"http://example.net/path?q#f", "https://u:p@h:8080/a/b?x=1&y=2#frag", "http://h", "http://1.2.3.4/", "http://[::1]:81/", "ftp://h:2121/x",
	"ws://h/", "wss://h:444/chat", "https://h/?#", "http://h/a%20b?c%20d#e%20f",
	"file:///C:/a/b", "file://host/x", "file:///", "file:///C|/x", "file:", "file://h/?q#f",
	"a://h/p?q#f", "a://u:p@h:1/p", "a://h", "a://", "a:///p", "a://[::1]/",
	"a:/p/q", "a:/", "a:/.//p", "a:p", "a:p  ?q#f", "a:p  ", "a:p  ?", "a:p  ?#", "mailto:x@y", "data:text/plain,x y  #f",
}

// SPNames are names used by the SearchParams workloads: mostly delimiters.
var spAtoms = []string{"a", "b", "c", "aa", "ab", "A", "", "&", "=", "+", "%", "#", "?", " ", "%2B", "%26", "%3D", "%00", "%41", "%zz", "é", "ü", "🌈", "ﬃ", "\uffff", "\U00010000", "\xff", "'", "\"", "<", ">", "/", ";", "~", "*", "-", "_", ".", "!", "(", ")", "\x00", "\x7f", "\n", "\ufeff", "\ufeff\ufeff"}

// SPString draws a parameter name or value.
func SPString(r *rand.Rand) string {
	n := r.IntN(4)
	if r.IntN(3) == 0 {
		n = 1
	}
	var sb strings.Builder
	for i := 0; i < n; i++ {
		sb.WriteString(Pick(r, spAtoms))
	}
	return sb.String()
}

// SPName draws from a small set so that names collide (multimap behaviour).
func SPName(r *rand.Rand) string {
	if r.IntN(3) == 0 {
		return SPString(r)
	}
	return Pick(r, []string{"a", "b", "c", "a", "", "&", "=", "+", "%", "é", "\uffff", "\U00010000", "a b", "A", "\xff"})
}

// QueryString draws a raw query string for the urlencoded parser.
// ThresholdSizes: list sizes just beyond plausible "small / large" cut-offs in an implementation.
var ThresholdSizes = []int{9, 17, 33, 65, 129, 257, 1001, 1030}

func QueryString(r *rand.Rand) string {
	n := r.IntN(6)
	if r.IntN(150) == 0 {
		// many pieces, few distinct names, not sorted
		k := Pick(r, ThresholdSizes) + r.IntN(4)
		var sb strings.Builder
		for i := 0; i < k; i++ {
			fmt.Fprintf(&sb, "%s=%d&", Pick(r, []string{"b", "a", "c", "a", "zz", "é"}), (i*7919)%1000)
		}
		return sb.String()
	}
	var sb strings.Builder
	for i := 0; i < n; i++ {
		if i > 0 || r.IntN(6) == 0 {
			sb.WriteString(Pick(r, []string{"&", "&", "&", "&&", ";", ""}))
		}
		sb.WriteString(qsAtom(r))
		switch r.IntN(5) {
		case 0:
		case 1:
			sb.WriteString("=")
		case 2:
			sb.WriteString("==")
			sb.WriteString(qsAtom(r))
		default:
			sb.WriteString("=")
			sb.WriteString(qsAtom(r))
		}
	}
	return sb.String()
}

func qsAtom(r *rand.Rand) string {
	n := 1 + r.IntN(3)
	var sb strings.Builder
	for i := 0; i < n; i++ {
		sb.WriteString(Pick(r, []string{"a", "b", "c", "1", "+", "%2B", "%26", "%3D", "%20", "%", "%4", "%zz", "%41", "%61", "%C3%A9", "%ff", "%00", "é", "🌈", " ", "'", "\"", "<", "~", "*", "-", ".", "_", "!", "(", ")", "/", "?", ":", "@", "$", ",", "\xff", "", "\ufeff", "%EF%BB%BF", "\ufeff\ufeff", "%EF%BB%BF%EF%BB%BF"}))
	}
	return sb.String()
}
