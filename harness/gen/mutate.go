package gen

import (
	"math/rand/v2"
	"strings"
)

var mutTokens = []string{":", "/", "//", "?", "#", "@", "[", "]", "\\", "|", "%", ".", "..", "%2e", "%2E", " ", "\t", "\n", "\x00", "::", ":/", "://",
	"0x", "0X", "xn--", "C|", "C:", "localhost", "file:", "http:", "https:", "ws:", "a:", "0", "1", "255", "256", "65535", "65536", "4294967295", "-", "+", "=", "&", "'", "\"", "<", ">", "`", "{", "}", "^", "~", "_",
	"%41", "%00", "%25", "%2f", "%5C", "%3a", "%40", "%23", "%3F", "%ff", "%c3%a9", "%", "%4", "é", "ß", "🌈", "≠", "\u00ad", "ａ", "．", "。", "\xff", "\xc3", "\xed\xa0\x80", "\r", "\x1f", "\x7f", "/.", "/..", "/./", "/../", "//.", ";", ",", "!", "$", "*", "(", ")",
	":~:", "#!", "##", "%23%23", "%25eth0", "%2525", "%252e", "%27", "%EF%BB%BF", "\ufeff", "127.1", "0x7f.1", "2130706433", "16777216", "::ffff:", "[::1]", "postgres:", "data:", "blob:", "..;", "@@"}

// Mutate applies 1-4 random edits to s (W-mutate).
func Mutate(r *rand.Rand, s string) string {
	k := 1 + r.IntN(4)
	for ; k > 0; k-- {
		s = mutateOnce(r, s)
	}
	if len(s) > 4096 {
		s = s[:4096]
	}
	return s
}

// Confusables: non-ASCII code points that turn into ASCII under a sloppy conversion - case
// folding with unicode.ToLower/ToUpper (U+212A -> k, U+0130 -> i, U+017F -> S) or truncation
// to a byte (U+0100+c has the low byte c: U+0131 -> '1', U+013A -> ':', U+0141 -> 'A', U+0661 -> 'a').
func Confusable(r *rand.Rand, c byte) string {
	switch {
	case (c == 'k' || c == 'K') && r.IntN(2) == 0:
		return "\u212a"
	case (c == 'i' || c == 'I') && r.IntN(2) == 0:
		return "\u0130"
	case (c == 's' || c == 'S') && r.IntN(2) == 0:
		return "\u017f"
	case c >= '0' && c <= '9' && r.IntN(2) == 0:
		// decimal digits of other scripts (unicode.IsDigit is true, the ASCII range test is not)
		base := []rune{0x0660, 0x06F0, 0x0966, 0xFF10, 0x1D7CE}[r.IntN(5)]
		return string(base + rune(c-'0'))
	}
	base := []rune{0x100, 0x100, 0x200, 0x400, 0x600, 0xFF00, 0x1F600}[r.IntN(7)]
	return string(base + rune(c))
}

// Confuse replaces 1-2 ASCII characters of s by confusables.
func Confuse(r *rand.Rand, s string) string {
	for k := 1 + r.IntN(2); k > 0 && len(s) > 0; k-- {
		p := r.IntN(len(s))
		if s[p] >= 0x80 || s[p] < 0x21 {
			continue
		}
		s = s[:p] + Confusable(r, s[p]) + s[p+1:]
	}
	return s
}

func mutateOnce(r *rand.Rand, s string) string {
	pos := func() int { return r.IntN(len(s) + 1) }
	if r.IntN(12) == 0 {
		return Confuse(r, s)
	}
	switch r.IntN(8) {
	case 0, 1, 2: // insert token
		p := pos()
		return s[:p] + Pick(r, mutTokens) + s[p:]
	case 3: // delete a slice
		if len(s) == 0 {
			return Pick(r, mutTokens)
		}
		p := r.IntN(len(s))
		n := 1 + r.IntN(3)
		if p+n > len(s) {
			n = len(s) - p
		}
		return s[:p] + s[p+n:]
	case 4: // replace a slice by a token
		if len(s) == 0 {
			return Pick(r, mutTokens)
		}
		p := r.IntN(len(s))
		n := 1 + r.IntN(2)
		if p+n > len(s) {
			n = len(s) - p
		}
		return s[:p] + Pick(r, mutTokens) + s[p+n:]
	case 5: // duplicate a slice
		if len(s) == 0 {
			return s
		}
		p := r.IntN(len(s))
		n := 1 + r.IntN(6)
		if p+n > len(s) {
			n = len(s) - p
		}
		return s[:p+n] + s[p:p+n] + s[p+n:]
	case 6: // splice with another corpus entry
		o := AnyInput(r)
		if len(o) == 0 {
			return s
		}
		return s[:pos()] + o[r.IntN(len(o)):]
	default: // flip case of a letter / swap two adjacent bytes
		if len(s) < 2 {
			return s + Pick(r, mutTokens)
		}
		b := []byte(s)
		p := r.IntN(len(b) - 1)
		if r.IntN(2) == 0 {
			b[p], b[p+1] = b[p+1], b[p]
		} else if (b[p] >= 'a' && b[p] <= 'z') || (b[p] >= 'A' && b[p] <= 'Z') {
			b[p] ^= 0x20
		} else {
			b[p] = byte(r.IntN(256))
		}
		return string(b)
	}
}

// AnyInput draws from W-corpus ∪ W-grammar.
func AnyInput(r *rand.Rand) string {
	if C != nil && r.IntN(3) != 0 {
		return Pick(r, C.Inputs)
	}
	return GrammarURL(r)
}

// Input draws an input string: corpus, grammar, or a mutation of either.
func Input(r *rand.Rand) string {
	switch r.IntN(10) {
	case 0, 1:
		return AnyInput(r)
	case 2, 3, 4:
		return GrammarURL(r)
	default:
		return Mutate(r, AnyInput(r))
	}
}

// Reference draws a reference string for resolution against a base: relative shapes are
// favoured.
func Reference(r *rand.Rand) string {
	switch r.IntN(12) {
	case 0:
		return "#" + QueryOrFragment(r)
	case 1:
		return "?" + QueryOrFragment(r)
	case 2:
		return ""
	case 3:
		return Path(r)
	case 4:
		p := Path(r)
		return strings.TrimLeft(p, "/\\")
	case 5:
		return "//" + Host(r) + Path(r)
	case 6:
		return Pick(r, []string{"..", ".", "../", "./", "../..", "/..", "/.", "..//", ".//x", "/.//x", "..\\", "%2e%2e", "%2e/"}) + PathSeg(r)
	case 7:
		return Pick(r, []string{"C|/x", "/C|/x", "C:", "c|", "/c:/..", "//C|/", "C|", "C|\\", "C|?", "C|#", "C|x"})
	case 8:
		return Pick(r, specialSchemes) + Pick(r, []string{":", ":/", "://", ":\\", ":x", ":/x", ":../x", ":?q", ":#f", ""}) + PathSeg(r)
	default:
		return Input(r)
	}
}

// Base draws a base string: 70 % from the pool of parseable bases, 30 % arbitrary.
func Base(r *rand.Rand) string {
	switch r.IntN(10) {
	case 0, 1:
		return Input(r)
	case 2:
		return Mutate(r, Pick(r, C.Bases))
	default:
		return Pick(r, C.Bases)
	}
}

// ParseableBase draws only from the pool (plus light path/query decoration).
func ParseableBase(r *rand.Rand) string {
	b := Pick(r, BasePool)
	if r.IntN(4) == 0 && !strings.ContainsAny(b, "?#") {
		switch r.IntN(3) {
		case 0:
			b += "?" + token(r)
		case 1:
			b += "#" + token(r)
		default:
			b += "?" + token(r) + "#" + token(r)
		}
	}
	return b
}

// SmallAlphabet is the 12-symbol structural alphabet of W-small.
const SmallAlphabet = "a:/\\?#@.1[]%"

// SmallCount is the number of strings of length <= L over an alphabet of size k.
func SmallCount(k, L int) int64 {
	var total, p int64 = 0, 1
	for l := 0; l <= L; l++ {
		total += p
		p *= int64(k)
	}
	return total
}

// SmallString returns the idx-th string (shortlex order) over alphabet.
func SmallString(alphabet string, idx int64) string {
	k := int64(len(alphabet))
	l := 0
	var p int64 = 1
	for idx >= p {
		idx -= p
		p *= k
		l++
	}
	b := make([]byte, l)
	for i := l - 1; i >= 0; i-- {
		b[i] = alphabet[idx%k]
		idx /= k
	}
	return string(b)
}
