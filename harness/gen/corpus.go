// Package gen holds the workload generators (DESIGN.md §4).  Every generator is a pure
// function of the PRNG it is given; none looks at the clock.
package gen

import (
	"encoding/json"
	"math/rand/v2"
	"os"
	"path/filepath"
	"sort"
)

// Corpus is W-corpus: strings harvested from the frozen WPT files plus hand-written seeds.
type Corpus struct {
	Inputs       []string            // WPT inputs + seeds
	Bases        []string            // distinct WPT bases + pool bases
	SetterValues map[string][]string // per setter: WPT new_value strings
	SetterStarts []string            // WPT setter start URLs
	IDNAInputs   []string            // IdnaTestV2 + toascii inputs
}

var C *Corpus

// Load reads the corpus from /verif/testdata.  It must be called before generating.
func Load(dir string) error {
	c := &Corpus{SetterValues: map[string][]string{}}
	seenIn, seenBase := map[string]bool{}, map[string]bool{}
	addIn := func(s string) {
		if !seenIn[s] {
			seenIn[s] = true
			c.Inputs = append(c.Inputs, s)
		}
	}
	addBase := func(s string) {
		if !seenBase[s] {
			seenBase[s] = true
			c.Bases = append(c.Bases, s)
		}
	}
	raw, err := os.ReadFile(filepath.Join(dir, "urltestdata.json"))
	if err != nil {
		return err
	}
	var items []json.RawMessage
	if err := json.Unmarshal(raw, &items); err != nil {
		return err
	}
	for _, it := range items {
		var v struct {
			Input *string `json:"input"`
			Base  *string `json:"base"`
			Href  string  `json:"href"`
		}
		if json.Unmarshal(it, &v) != nil || v.Input == nil {
			continue
		}
		addIn(*v.Input)
		if v.Href != "" {
			addIn(v.Href)
		}
		if v.Base != nil {
			addBase(*v.Base)
		}
	}
	raw, err = os.ReadFile(filepath.Join(dir, "setters_tests.json"))
	if err != nil {
		return err
	}
	var setters map[string]json.RawMessage
	if err := json.Unmarshal(raw, &setters); err != nil {
		return err
	}
	names := make([]string, 0, len(setters))
	for k := range setters {
		names = append(names, k)
	}
	sort.Strings(names)
	seenStart := map[string]bool{}
	for _, name := range names {
		if name == "comment" {
			continue
		}
		var cases []struct {
			Href     string `json:"href"`
			NewValue string `json:"new_value"`
		}
		if json.Unmarshal(setters[name], &cases) != nil {
			continue
		}
		seenV := map[string]bool{}
		for _, tc := range cases {
			if !seenV[tc.NewValue] {
				seenV[tc.NewValue] = true
				c.SetterValues[name] = append(c.SetterValues[name], tc.NewValue)
			}
			if !seenStart[tc.Href] {
				seenStart[tc.Href] = true
				c.SetterStarts = append(c.SetterStarts, tc.Href)
			}
			addIn(tc.Href)
		}
	}
	for _, f := range []string{"IdnaTestV2.json", "toascii.json"} {
		raw, err = os.ReadFile(filepath.Join(dir, f))
		if err != nil {
			return err
		}
		var its []json.RawMessage
		if err := json.Unmarshal(raw, &its); err != nil {
			return err
		}
		for _, it := range its {
			var v struct {
				Input *string `json:"input"`
			}
			if json.Unmarshal(it, &v) == nil && v.Input != nil && *v.Input != "" {
				c.IDNAInputs = append(c.IDNAInputs, *v.Input)
			}
		}
	}
	for _, s := range HandSeeds {
		addIn(s)
	}
	for _, b := range BasePool {
		addBase(b)
	}
	C = c
	return nil
}

// HandSeeds: one group per parser state and per quirk named in the properties.
var HandSeeds = []string{
	// IPv4 quirks
	"http://-1/", "http://1.+2.3.4/", "http://0x+f/", "http://1.-2/", "http://0x7f.1/", "http://017700000001/",
	"http://4294967295/", "http://4294967296/", "http://1.2.3.4.5/", "http://1.2.3.4./", "http://1.2.3.4../",
	"http://0x/", "http://0x.0x/", "http://09/", "http://08.1/", "http://1.0x100/", "http://256.1.1.1/", "http://1.1.1.256/",
	"http://1.65536/", "http://1.1.65536/", "http://foo.0xffffffffffffffffff&ace/", "http://a.1_1/", "http://1e3/",
	"foo://-1/", "foo://0x7f.1/", "http://./", "http://../", "http://1../", "http://.1/", "http://a.b.1/",
	"http://０Ｘｃ０．０２５０．-０１/", "http://%30%78%37%66.1/",
	// IPv6 quirks
	"http://[[::8]]/", "htt://[][::1]", "http://[::1][]", "http://[::1]]/", "http://[::1/", "http://[]/", "http://[:]/",
	"http://[::]/", "http://[1::]/", "http://[::1.2.3.4]/", "http://[::1.2.3]/", "http://[::01.2.3.4]/", "http://[1:2:3:4:5:6:7:8]/",
	"http://[1:2:3:4:5:6:7:8:9]/", "http://[1:0:0:2:0:0:0:3]/", "http://[1:0:0:0:2:0:0:3]/", "http://[0:0:1:0:0:1:0:0]/",
	"http://[::ffff:1.2.3.4]/", "http://[1:2:3:4:5:6:1.2.3.4]/", "http://[1:2:3:4:5:6:7:1.2.3.4]/", "http://[00001::]/",
	"http://[1::2::3]/", "http://[:1]/", "http://[1:]/", "http://[g::]/", "foo://[::1]/", "foo://[::1]:80/", "http://[::1]:80/",
	"http://[::1%25eth0]/", "http://[::1]a/", "http://a[::1]/", "http://[0x1::]/",
	// domains
	"http://a≠b/", "http://EXAMPLE.com/", "http://ex%41mple.com/", "http://%E4%BD%A0%E5%A5%BD/", "http://xn--nxasmq6b/",
	"http://xn--/", "http://xn--a/", "http://a\u00adb/", "http://ＧＯ.com/", "http://faß.de/", "http://a.b./", "http://a..b/",
	"http://a%2eb/", "http://%/", "http://a%/", "http://a%zz/", "http://a b/", "http://a<b/", "http://a^b/", "http://a|b/",
	"http://a%00b/", "http://a%20b/", "http://a%25b/", "http://a\x7fb/", "http://a%7fb/", "http://\ufffd/", "http://a\xffb/",
	"file://localhost/x", "file://LOCALHOST/x", "file://loc%61lhost/x", "file://localhost./x", "file://localhost:80/x",
	// file / drive letters
	"file:///C:/x", "file:///C|/x", "file://C|/x", "file:C|/x", "file:/C|", "file:///C|", "file:///c:/../x", "file:///c:/..",
	"file:c:\\x\\y", "file://host/C:/x", "file:////x", "file:///./C|", "file:////./C|", "file:/.//x", "file:..", "file:a", "file:",
	"file://", "file:///", "file:?q", "file:#f", "file:\\\\h\\p", "file://h:1/", "file://%43%3A/", "file:///%43:/",
	// paths and dots
	"http://h/a/./b/../c", "http://h/a/%2e/b/%2E%2e/c", "http://h/..", "http://h/../..", "http://h/.", "http://h//.", "http://h//..",
	"http://h/a//b///c", "http://h/a/..//b", "http://h/x//a/../../b", "http://h\\a\\b", "http://h/a\\..\\b", "http://h/%2e%2E/",
	"http://h/.%2e", "http://h/%2e.", "http://h/a/%2e", "http://h/ /?  # ", "http://h/%", "http://h/%4", "http://h/%zz", "http://h/%41%",
	"a:/.//x", "a:/..//x", "a:/a/../..//x", "a://h/.//x", "a:/", "a://", "a:", "a:x", "a:x y", "a:x  ", "a:x  ?q", "a:x  #f", "a:x ?q#f",
	"a:\\x", "a:/\\x", "a:/x\\y", "a://h\\p", "a:///x", "a:////x",
	// authority
	"http://u:p@h/", "http://u@h/", "http://:p@h/", "http://:@h/", "http://@h/", "http://u:p:q@h/", "http://u@v@h/", "http://@@@h/",
	"http://u:p@/", "http://u:p@:80/", "http://h:/", "http://h:80/", "http://h:0/", "http://h:00080/", "http://h:65535/", "http://h:65536/",
	"http://h:99999999999999999999/", "http://h:8a/", "http://h:-1/", "http://h: 80/", "https://h:443/", "https://h:80/", "ftp://h:21/",
	"ws://h:80/", "wss://h:443/", "ws://h:443/", "a://h:80/", "a://h:/", "a://u:p@h:1/p?q#f", "a://@/", "a://:1/", "http://h:80:80/",
	"http://u%40:p%3A@h/", "http://ü:π@h/", "http:///h", "http:/h", "http:h", "http:\\\\h", "http:/\\h", "http://\\h", "http:////h//p",
	// schemes
	"HTTP://H/", "hTtPs://H/", "a+b-c.d:x", "1a:x", "+a:x", ":x", "a", "", " ", "a:b:c", "ab", "http", "http:", "https:", "ws:", "ftp:",
	"http:?q", "http:#f", "http::80", "javascript:alert(1)", "mailto:a@b", "data:text/html,<x>", "blob:http://h/x", "about:blank",
	"urn:x:y?q#f", "a:?", "a:#", "a:?#", "a://?#", "http://h?#", "http://h/?#", "http://h?q?q#f#f",
	// query / fragment encode sets
	"http://h/?'\"<>`{}| #'\"<>`{}| ", "a://h/?'\"<>`{}| #'\"<>`{}| ", "http://h/p'\"<>`{}|^", "a:p'\"<>`{}|^?'#'", "http://h/?%#%",
	"http://h/?a=1%2B1&b=c+d", "http://h/?é=ü#ñ", "http://h/\u0000\u007f\u0080\uffff\U0010ffff", "http://h/?\u0000#\u0000",
	// whitespace / control
	" \t\nhttp://h/ \t\n", "ht\ttp://h\n/p\ra", "\x00http://h/\x00", "http://h/\x1f", "\x1fhttp://h/", "http://h/\t?\n#\r",
	"h\ttp://h/", "http:\t//h/", "http:/\n/h/", "http://h\t:8\n0/",
	// invalid UTF-8
	"http://h/\xff", "http://h/?\xff#\xff", "http://\xff/", "http://h/\xc3", "http://h/\xed\xa0\x80", "http://h/\xc3\n\xb1",
	"s://\xc3\n\xb1", "\xffhttp://h/", "http://u\xff:p\xff@h/", "a:\xff",
	// relative references
	"/x", "//x", "///x", "\\x", "\\\\x", "?q", "#f", "x", "./x", "../x", "../../x", ".", "..", "x/y?q#f", "//h:1/p", "//u:p@h/p", "///",
	"/..//x", "/.//x", "C|/x", "/C|/x", "//C|/x", "C:", "c:/", "/c:", "?", "#", "http:x", "http:/x", "http://x", "file:x", "file:/x",
	"https:x", "a:x", "//", "/\\", "\\/", "/?#", "%2e%2e/x", ".%2E/x", "x/../../../y", "x//y", "x/./y", "\t/x", " x ",
}

// BasePool covers the base kinds of W-bases.
var BasePool = []string{
	"http://example.org/foo/bar", "http://h", "http://h/", "http://h/a/b/c?q#f", "http://u:p@h:8080/a/b?q#f", "https://h:80/a/",
	"http://h//a//b", "http://h/a/..%2f/b", "ftp://h/a;type=i", "ws://h/chat?x", "wss://u@h/", "http://1.2.3.4/x", "http://[::1]:81/x",
	"http://h/a/b/", "http://h/?", "http://h/#", "http://h/?#", "http://h/.//x",
	"file:///", "file:///a/b", "file:///C:/a/b", "file:///C:/", "file:///C:", "file://host/a/b", "file://host/C:/a", "file:///a/b?q#f",
	"file:///.//x", "file:", "file:///c:/a/../b", "file://h", "file:///C|/a",
	"a://h/p/q", "a://h", "a://h/", "a://u:p@h:1/p/q?r#s", "a://h//p", "a://h/p/../q", "a://[::1]/p", "a://h/?", "a://h/#", "a://h/p/q/",
	"a:/p/q", "a:/", "a:/.//p", "a:/p//q", "a:/p/q?r#s", "a:///p", "a:/p/q/",
	"a:", "a:p", "a:p/q", "a:p?q#f", "a:p  ", "a:p  ?q", "a:p  #f", "a:p ?q#f", "a:p  ?", "a:p  #", "a:p  ?#", "sc:opaque  ?", "data:x  ?#f", "mailto:x@y", "data:,x", "a:#", "a:?", "about:blank", "javascript:x",
}

// Pick returns a random element.
func Pick[T any](r *rand.Rand, xs []T) T { return xs[r.IntN(len(xs))] }

// Chance is true with probability p.
func Chance(r *rand.Rand, p float64) bool { return r.Float64() < p }
