package gen

import (
	"fmt"
	"math/rand/v2"
	"strconv"
	"strings"
)

// WebURL is an abstract "ordinary web URL" of C17/C18: http, https, ftp, ws or wss scheme,
// a host of letter-digit-hyphen labels or an IP literal, optional credentials and port,
// path segments, query names/values and fragment of RFC 3986 unreserved characters.
type WebURL struct {
	Scheme   string
	User     string // "" = none
	Pass     string
	HasPass  bool
	Host     string // as it is to be written (lowercase for domains)
	Port     string // "" = none, "default" = the scheme's default, otherwise digits
	Segs     []string
	TrailSl  bool
	HasQuery bool
	Query    []WebPair
	HasFrag  bool
	Frag     string
}

type WebPair struct {
	Name, Value string
	HasEq       bool
}

const unreserved = "abcdefghijklmnopqrstuvwxyzABCDEFGHIJKLMNOPQRSTUVWXYZ0123456789-._~"

var webDefaultPort = map[string]string{"http": "80", "https": "443", "ftp": "21", "ws": "80", "wss": "443"}

func unreservedToken(r *rand.Rand, min, max int) string {
	n := min + r.IntN(max-min+1)
	b := make([]byte, n)
	for i := range b {
		if r.IntN(4) == 0 {
			b[i] = "-._~"[r.IntN(4)]
		} else {
			b[i] = unreserved[r.IntN(len(unreserved))]
		}
	}
	return string(b)
}

var webLabels = []string{"a", "b", "example", "com", "org", "www", "x-y", "a1", "1a", "a-", "a--b", "test", "host", "h", "sub", "co", "uk", "n0", "x9z"}

func webHost(r *rand.Rand) string {
	switch r.IntN(8) {
	case 0: // IPv4 literal, possibly in an alternative spelling
		switch r.IntN(4) {
		case 0:
			return fmt.Sprintf("%d.%d.%d.%d", r.IntN(256), r.IntN(256), r.IntN(256), r.IntN(256))
		case 1:
			return fmt.Sprintf("0x%x.%d.0%o.%d", r.IntN(256), r.IntN(256), r.IntN(256), r.IntN(256))
		case 2:
			return strconv.FormatUint(uint64(r.Uint32()), 10)
		default:
			return fmt.Sprintf("%d.%d", r.IntN(256), r.IntN(1<<24))
		}
	case 1:
		return "[" + RandomIPv6(r) + "]"
	default:
		n := 1 + r.IntN(3)
		labels := make([]string, n)
		for i := range labels {
			labels[i] = Pick(r, webLabels)
		}
		// the last label must not be numeric
		last := labels[n-1]
		if last[0] >= '0' && last[0] <= '9' {
			labels[n-1] = "com"
		}
		return strings.Join(labels, ".")
	}
}

// Web draws an abstract ordinary web URL.
func Web(r *rand.Rand) *WebURL {
	w := &WebURL{Scheme: Pick(r, []string{"http", "https", "ftp", "ws", "wss", "http", "https"})}
	if r.IntN(5) == 0 {
		w.User = unreservedToken(r, 1, 5)
		if r.IntN(2) == 0 {
			w.HasPass = true
			w.Pass = unreservedToken(r, 0, 5)
		}
	}
	w.Host = webHost(r)
	switch r.IntN(6) {
	case 0:
		w.Port = "default"
	case 1:
		w.Port = strconv.Itoa(1 + r.IntN(65535))
	case 2:
		w.Port = Pick(r, []string{"80", "443", "21", "8080", "0", "65535"})
	}
	n := r.IntN(5)
	for i := 0; i < n; i++ {
		var s string
		switch r.IntN(8) {
		case 0:
			s = ""
		case 1:
			s = Pick(r, []string{"...", ".a", "a.", "..a", "a..", "~", "-", "_", ".~", "%", "2e", "2E", "25", "%2"})
			s = strings.Map(func(c rune) rune {
				if c == '%' {
					return 'p'
				}
				return c
			}, s)
		default:
			s = unreservedToken(r, 1, 6)
		}
		if s == "." || s == ".." {
			s = "x"
		}
		w.Segs = append(w.Segs, s)
	}
	w.TrailSl = r.IntN(3) == 0
	if r.IntN(2) == 0 {
		w.HasQuery = true
		k := 1 + r.IntN(3)
		for i := 0; i < k; i++ {
			p := WebPair{Name: unreservedToken(r, 1, 4), HasEq: r.IntN(4) != 0}
			if p.HasEq {
				p.Value = unreservedToken(r, 0, 5)
			}
			if r.IntN(4) == 0 {
				p.Name = Pick(r, []string{"a", "b", "c"})
			}
			if r.IntN(24) == 0 {
				// the empty name is also "made of unreserved characters": "?a&=&b", "?=x"
				p.Name, p.HasEq = "", true
			}
			w.Query = append(w.Query, p)
		}
	}
	if r.IntN(3) == 0 {
		w.HasFrag = true
		w.Frag = unreservedToken(r, 1, 6)
	}
	if r.IntN(16) == 0 {
		// one LONG token (hundreds to thousands of unreserved characters, just beyond round sizes): work or
		// size limits per component, buffers that are grown once, "long input" fast paths
		n := Pick(r, WebLongSizes) + r.IntN(4)
		long := unreservedToken(r, n, n)
		switch r.IntN(4) {
		case 0:
			w.Segs = append(w.Segs, long)
		case 1:
			k := r.IntN(len(w.Segs) + 1)
			w.Segs = append(w.Segs[:k:k], append([]string{long}, w.Segs[k:]...)...)
		case 2:
			w.HasQuery = true
			w.Query = append(w.Query, WebPair{Name: unreservedToken(r, 1, 4), HasEq: true, Value: long})
		default:
			w.HasFrag = true
			w.Frag = long
		}
	}
	return w
}

// WebLongSizes: lengths of the long token of a web URL.
var WebLongSizes = []int{65, 129, 257, 341, 513, 600, 1025, 1030, 2049, 4097}

// Variations selects which spelling differences Spell may apply.
type Variations struct {
	Case        bool // letter case of scheme and host
	Encoding    bool // hex-digit case and (nested) percent-encoding of unreserved characters
	DefaultPort bool // explicit default port / empty port
	DotSegments bool // inserted ".", "x/..", "%2e", "%2E%2e" segments
	TabsNL      bool // embedded tabs and newlines
	Surround    bool // leading / trailing C0 control or space
	EmptyFrag   bool // "#" with an empty fragment
}

// AllVariations: everything C18 lists; StandardVariations: what the standard normalises.
var AllVariations = Variations{true, true, true, true, true, true, true}
var StandardVariations = Variations{Case: true, DefaultPort: true, DotSegments: true, TabsNL: true, Surround: true}

// encodeLayer percent-encodes each character of s with probability p (hex digits in random case).
func encodeLayer(r *rand.Rand, s string, p float64) string {
	var sb strings.Builder
	for i := 0; i < len(s); i++ {
		if r.Float64() < p {
			h := fmt.Sprintf("%02X", s[i])
			if r.IntN(2) == 0 {
				h = strings.ToLower(h)
			}
			sb.WriteString("%" + h)
		} else {
			sb.WriteByte(s[i])
		}
	}
	return sb.String()
}

// spellToken writes a token of unreserved characters with 0-3 LAYERS of percent-encoding:
// each layer encodes any subset of the characters of the previous layer's text - also the
// '%' and the hex digits of escapes written by an earlier layer (nested encoding in the
// general sense: "%61", "%2561", "%25%36%31", "%%361" all decode, layer by layer, to "a").
func spellToken(r *rand.Rand, s string, v Variations) string {
	if !v.Encoding {
		return s
	}
	if len(s) >= 200 {
		// a long token: up to three sparse layers (a handful of possibly nested escapes in a long component)
		for l := r.IntN(4); l > 0; l-- {
			s = encodeLayer(r, s, 0.01)
		}
		return s
	}
	if len(s) > 0 && r.IntN(16) == 0 {
		// DEEP nesting of one character: "%25252525…2561", 4 to 14 levels (a bound on the number of decoding rounds)
		i := r.IntN(len(s))
		e := fmt.Sprintf("%%%02X", s[i])
		for k := 3 + r.IntN(11); k > 0; k-- {
			e = "%25" + e[1:]
		}
		return s[:i] + e + s[i+1:]
	}
	layers := r.IntN(4)
	p := []float64{0.15, 0.5, 1}[r.IntN(3)]
	for l := 0; l < layers && len(s) < 200; l++ {
		s = encodeLayer(r, s, p)
		p = []float64{0.1, 0.3, 0.6}[r.IntN(3)]
	}
	return s
}

// Spell writes w in one of its spellings.
func (w *WebURL) Spell(r *rand.Rand, v Variations) string {
	var sb strings.Builder
	scheme, host := w.Scheme, w.Host
	if v.Case && r.IntN(2) == 0 {
		scheme = mixCase(r, scheme)
	}
	if v.Case && r.IntN(2) == 0 {
		host = mixCase(r, host)
	}
	sb.WriteString(scheme)
	sb.WriteString("://")
	if w.User != "" {
		sb.WriteString(w.User)
		if w.HasPass {
			sb.WriteString(":")
			sb.WriteString(w.Pass)
		}
		sb.WriteString("@")
	}
	sb.WriteString(host)
	switch {
	case w.Port == "default" || w.Port == "":
		if v.DefaultPort {
			switch r.IntN(3) {
			case 0:
				sb.WriteString(":" + webDefaultPort[w.Scheme])
			case 1:
				sb.WriteString(":")
			}
		} else if w.Port == "default" {
			sb.WriteString(":" + webDefaultPort[w.Scheme])
		}
	default:
		sb.WriteString(":" + w.Port)
	}
	dots := func() {
		if v.DotSegments && r.IntN(4) == 0 {
			switch r.IntN(5) {
			case 0:
				sb.WriteString("/.")
			case 1:
				sb.WriteString("/x/..")
			case 2:
				sb.WriteString("/" + Pick(r, []string{"%2e", "%2E"}))
			case 3:
				sb.WriteString("/y/" + Pick(r, []string{"%2e%2e", "%2E%2e", ".%2e", "%2E.", "%2e%2E"}))
			default:
				sb.WriteString("/q/r/../..")
			}
		}
	}
	for _, s := range w.Segs {
		dots()
		sb.WriteString("/")
		sb.WriteString(spellToken(r, s, v))
	}
	if w.TrailSl || len(w.Segs) == 0 {
		dots() // a dot segment is only equivalent to nothing when a '/' follows it
		sb.WriteString("/")
	}
	if w.HasQuery {
		sb.WriteString("?")
		for i, p := range w.Query {
			if i > 0 {
				sb.WriteString("&")
			}
			sb.WriteString(spellToken(r, p.Name, v))
			if p.HasEq {
				sb.WriteString("=")
				sb.WriteString(spellToken(r, p.Value, v))
			}
		}
	}
	if w.HasFrag {
		sb.WriteString("#")
		sb.WriteString(spellToken(r, w.Frag, v))
	} else if v.EmptyFrag && r.IntN(4) == 0 {
		sb.WriteString("#")
	}
	s := sb.String()
	if v.TabsNL && r.IntN(4) == 0 {
		for k := 1 + r.IntN(3); k > 0; k-- {
			p := r.IntN(len(s) + 1)
			s = s[:p] + Pick(r, []string{"\t", "\n", "\r"}) + s[p:]
		}
	}
	if v.Surround && r.IntN(4) == 0 {
		s = Pick(r, []string{" ", "\x00", "\t ", "\x1f", "  "}) + s
	}
	if v.Surround && r.IntN(4) == 0 {
		s = s + Pick(r, []string{" ", "\x00", " \n", "\x1f", "  "})
	}
	return s
}

// EncodeTokens returns a copy of w whose path segments, query names/values and fragment
// are already written in one fixed (possibly nested) percent-encoded spelling, so that two
// later Spell calls without the Encoding variation agree on them.
func (w *WebURL) EncodeTokens(r *rand.Rand) *WebURL {
	c := *w
	v := Variations{Encoding: true}
	c.Segs = make([]string, len(w.Segs))
	for i, s := range w.Segs {
		c.Segs[i] = spellToken(r, s, v)
		if l := strings.ToLower(c.Segs[i]); l == "%2e" || l == "%2e%2e" || l == ".%2e" || l == "%2e." {
			c.Segs[i] = s // never create a dot segment out of an ordinary one
		}
	}
	c.Query = make([]WebPair, len(w.Query))
	for i, p := range w.Query {
		c.Query[i] = WebPair{Name: spellToken(r, p.Name, v), Value: spellToken(r, p.Value, v), HasEq: p.HasEq}
	}
	c.Frag = spellToken(r, w.Frag, v)
	return &c
}
