package core

import (
	"encoding/json"
	"fmt"
	"os"
)

// KFEntry is one entry of /verif/known_findings.json (DESIGN.md §2.6).
type KFEntry struct {
	ID         string   `json:"id,omitempty"`
	Status     string   `json:"status"` // "open" or "fixed"
	Properties []string `json:"properties,omitempty"`
	Property   string   `json:"property,omitempty"`
	Classifier string   `json:"classifier,omitempty"`
	Commit     string   `json:"commit,omitempty"`
	What       string   `json:"what"`
	Example    any      `json:"example,omitempty"`
}

// KnownFindings is the committed, read-only list.
type KnownFindings struct {
	Entries []KFEntry
}

// Classifier recognises one specific root cause by the shape of the witness.
type Classifier func(prop string, v *Violation) bool

var classifiers = map[string]Classifier{}

// RegisterClassifier registers a named classifier (package kf does this in init).
func RegisterClassifier(name string, f Classifier) { classifiers[name] = f }

func LoadKnownFindings(path string) (*KnownFindings, error) {
	raw, err := os.ReadFile(path)
	if err != nil {
		return nil, err
	}
	var doc struct {
		Findings []KFEntry `json:"findings"`
	}
	if err := json.Unmarshal(raw, &doc); err != nil {
		return nil, err
	}
	k := &KnownFindings{Entries: doc.Findings}
	for _, e := range k.Entries {
		if e.Status == "open" {
			if _, ok := classifiers[e.Classifier]; !ok {
				return nil, fmt.Errorf("known finding %s: unknown classifier %q", e.ID, e.Classifier)
			}
		}
	}
	return k, nil
}

// Classify returns the id of the open finding that explains v, or "".
func (k *KnownFindings) Classify(prop string, v *Violation) string {
	if k == nil {
		return ""
	}
	for _, e := range k.Entries {
		if e.Status != "open" {
			continue
		}
		applies := false
		for _, p := range e.Properties {
			if p == prop {
				applies = true
			}
		}
		if !applies {
			continue
		}
		if classifiers[e.Classifier](prop, v) {
			return e.ID
		}
	}
	return ""
}

func (k *KnownFindings) entry(id string) *KFEntry {
	for i := range k.Entries {
		if k.Entries[i].ID == id {
			return &k.Entries[i]
		}
	}
	return nil
}
