// Package core is the monitor runtime: cases, shard contexts, the driver that spawns one
// worker process per shard, evidence and replay files, known-finding handling.
package core

import (
	"encoding/base64"
	"encoding/binary"
	"encoding/json"
	"fmt"
	"hash/fnv"
	"strings"
	"unicode/utf8"
)

// S is a string that survives JSON even when it is not valid UTF-8: valid strings are
// written as JSON strings, others as {"b64": "..."}.
type S string

func (s S) MarshalJSON() ([]byte, error) {
	if utf8.ValidString(string(s)) {
		return json.Marshal(string(s))
	}
	return json.Marshal(map[string]string{"b64": base64.StdEncoding.EncodeToString([]byte(s))})
}

func (s *S) UnmarshalJSON(b []byte) error {
	var str string
	if err := json.Unmarshal(b, &str); err == nil {
		*s = S(str)
		return nil
	}
	var m map[string]string
	if err := json.Unmarshal(b, &m); err != nil {
		return err
	}
	raw, err := base64.StdEncoding.DecodeString(m["b64"])
	if err != nil {
		return err
	}
	*s = S(raw)
	return nil
}

// Op is one step of an operation history.
type Op struct {
	Name string `json:"op"`
	Args []S    `json:"args,omitempty"`
}

func (o Op) Arg(i int) string {
	if i < len(o.Args) {
		return string(o.Args[i])
	}
	return ""
}

func (o Op) String() string {
	parts := make([]string, len(o.Args))
	for i, a := range o.Args {
		parts[i] = fmt.Sprintf("%q", string(a))
	}
	return o.Name + "(" + strings.Join(parts, ",") + ")"
}

// Case is the universal description of one monitored execution.  A monitor's Exec is a
// pure function of the Case (and of /repo's code), so a Case is also a replay.
type Case struct {
	Check   string   `json:"check"`          // which sub-check of the monitor
	Input   S        `json:"input"`          // main input string
	Base    S        `json:"base,omitempty"` // base URL string (HasBase)
	HasBase bool     `json:"has_base,omitempty"`
	Alt     S        `json:"alt,omitempty"`    // second spelling / second string
	Config  []string `json:"config,omitempty"` // option names / profile name
	Ops     []Op     `json:"ops,omitempty"`    // operation history
	N       int      `json:"n,omitempty"`      // numeric parameter (sizes, indices)
}

// Hash is a 64-bit identity of the case (distinct counting).
func (c *Case) Hash() uint64 {
	h := fnv.New64a()
	h.Write(c.appendBinary(nil))
	return h.Sum64()
}

func putStr(b []byte, s string) []byte {
	b = binary.AppendUvarint(b, uint64(len(s)))
	return append(b, s...)
}

func (c *Case) appendBinary(b []byte) []byte {
	b = putStr(b, c.Check)
	b = putStr(b, string(c.Input))
	if c.HasBase {
		b = append(b, 1)
	} else {
		b = append(b, 0)
	}
	b = putStr(b, string(c.Base))
	b = putStr(b, string(c.Alt))
	b = binary.AppendUvarint(b, uint64(len(c.Config)))
	for _, s := range c.Config {
		b = putStr(b, s)
	}
	b = binary.AppendUvarint(b, uint64(len(c.Ops)))
	for _, o := range c.Ops {
		b = putStr(b, o.Name)
		b = binary.AppendUvarint(b, uint64(len(o.Args)))
		for _, a := range o.Args {
			b = putStr(b, string(a))
		}
	}
	b = binary.AppendVarint(b, int64(c.N))
	return b
}

type binReader struct {
	b   []byte
	err error
}

func (r *binReader) uvarint() uint64 {
	v, n := binary.Uvarint(r.b)
	if n <= 0 {
		r.err = fmt.Errorf("short buffer")
		return 0
	}
	r.b = r.b[n:]
	return v
}

func (r *binReader) str() string {
	n := r.uvarint()
	if r.err != nil || uint64(len(r.b)) < n {
		r.err = fmt.Errorf("short buffer")
		return ""
	}
	s := string(r.b[:n])
	r.b = r.b[n:]
	return s
}

func decodeCase(b []byte) (*Case, error) {
	r := &binReader{b: b}
	c := &Case{}
	c.Check = r.str()
	c.Input = S(r.str())
	if len(r.b) == 0 {
		return nil, fmt.Errorf("short buffer")
	}
	c.HasBase = r.b[0] == 1
	r.b = r.b[1:]
	c.Base = S(r.str())
	c.Alt = S(r.str())
	for n := r.uvarint(); n > 0 && r.err == nil; n-- {
		c.Config = append(c.Config, r.str())
	}
	for n := r.uvarint(); n > 0 && r.err == nil; n-- {
		o := Op{Name: r.str()}
		for m := r.uvarint(); m > 0 && r.err == nil; m-- {
			o.Args = append(o.Args, S(r.str()))
		}
		c.Ops = append(c.Ops, o)
	}
	if r.err == nil {
		v, n := binary.Varint(r.b)
		if n <= 0 {
			r.err = fmt.Errorf("short buffer")
		}
		c.N = int(v)
	}
	return c, r.err
}

// Brief renders a case on one line (logs).
func (c *Case) Brief() string {
	var sb strings.Builder
	fmt.Fprintf(&sb, "%s input=%q", c.Check, clip(string(c.Input), 200))
	if c.HasBase {
		fmt.Fprintf(&sb, " base=%q", clip(string(c.Base), 200))
	}
	if c.Alt != "" {
		fmt.Fprintf(&sb, " alt=%q", clip(string(c.Alt), 200))
	}
	if len(c.Config) > 0 {
		fmt.Fprintf(&sb, " config=%v", c.Config)
	}
	if len(c.Ops) > 0 {
		ops := make([]string, len(c.Ops))
		for i, o := range c.Ops {
			ops[i] = clip(o.String(), 120)
		}
		fmt.Fprintf(&sb, " ops=[%s]", strings.Join(ops, " "))
	}
	if c.N != 0 {
		fmt.Fprintf(&sb, " n=%d", c.N)
	}
	return sb.String()
}

func clip(s string, n int) string {
	if len(s) <= n {
		return s
	}
	return s[:n] + fmt.Sprintf("...(%d bytes)", len(s))
}
