package core

import (
	"encoding/binary"
	"fmt"
	"math/rand/v2"
	"os"
	"runtime"
	"strings"
	"sync/atomic"
	"syscall"
	"unicode/utf8"

	"github.com/nlnwa/whatwg-url/url"
)

// Violation is one refuting observation.
type Violation struct {
	Case     *Case  `json:"case"`
	Class    string `json:"class"`              // short label of what was violated
	Expected any    `json:"expected,omitempty"` // what the oracle demanded
	Observed any    `json:"observed,omitempty"` // what the code did
	Note     string `json:"note,omitempty"`
	Known    string `json:"known_finding,omitempty"`
}

// ShardResult is what a worker hands back to the driver.
type ShardResult struct {
	Shard          int                 `json:"shard"`
	Evaluations    int64               `json:"evaluations"`
	Counters       map[string]int64    `json:"counters"`
	Samples        []*Case             `json:"samples"`
	Violations     []*Violation        `json:"violations"`
	ViolationCount int64               `json:"violation_count"`
	ByClass        map[string]int64    `json:"violations_by_class"`
	Known          map[string]int64    `json:"known"`
	KnownExample   map[string]*Case    `json:"known_example"`
	Edges          map[string]uint64   `json:"edges"`
	ParserCalls    int64               `json:"parser_calls"`
	MaxStepRatio   float64             `json:"max_step_ratio"`
	MaxStepCase    *Case               `json:"max_step_case,omitempty"`
	Inconclusive   []string            `json:"inconclusive"`
	Broken         []string            `json:"broken"`
	Extra          map[string]any      `json:"extra,omitempty"`
	DistinctFile   string              `json:"distinct_file"`
	Distinct       int                 `json:"distinct"`
	Lists          map[string][]string `json:"lists,omitempty"`
}

// Ctx is the per-shard monitor context.  It is used from one goroutine only.
type Ctx struct {
	Prop    string
	Tier    string
	Seed    int64
	Shard   int
	NShards int
	Rng     *rand.Rand
	Replay  bool // replaying a single case: be verbose
	KF      *KnownFindings
	Res     *ShardResult

	distinct   map[uint64]struct{}
	bits       []uint64 // thorough tier: 2^30-bit bitmap instead of the exact set (conservative count)
	crash      []byte   // mmap'd crash buffer (nil if unavailable)
	crashFile  *os.File
	cur        *Case
	sampleNext int64
	scratch    []byte
}

const crashBufSize = 1 << 20

// progress counts cases begun; the only reader is the per-case CPU watchdog of the worker.
// It is the monitor's own state and is never touched by code under test.
var progress int64

func newCtx(prop, tier string, seed int64, shard, nshards int, kf *KnownFindings) *Ctx {
	return &Ctx{
		Prop: prop, Tier: tier, Seed: seed, Shard: shard, NShards: nshards, KF: kf,
		Rng: rand.New(rand.NewPCG(uint64(seed)*0x9E3779B97F4A7C15+uint64(shard)+1, hashString(prop+"/"+tier))),
		Res: &ShardResult{Shard: shard, Counters: map[string]int64{}, ByClass: map[string]int64{},
			Known: map[string]int64{}, KnownExample: map[string]*Case{}, Edges: map[string]uint64{},
			Extra: map[string]any{}, Lists: map[string][]string{}},
		distinct:   map[uint64]struct{}{},
		sampleNext: 1,
	}
}

func hashString(s string) uint64 {
	var h uint64 = 14695981039346656037
	for i := 0; i < len(s); i++ {
		h ^= uint64(s[i])
		h *= 1099511628211
	}
	return h
}

func (c *Ctx) openCrashBuf(path string) {
	f, err := os.OpenFile(path, os.O_RDWR|os.O_CREATE|os.O_TRUNC, 0o644)
	if err != nil {
		return
	}
	if err := f.Truncate(crashBufSize); err != nil {
		f.Close()
		return
	}
	m, err := syscall.Mmap(int(f.Fd()), 0, crashBufSize, syscall.PROT_READ|syscall.PROT_WRITE, syscall.MAP_SHARED)
	if err != nil {
		f.Close()
		return
	}
	c.crash, c.crashFile = m, f
}

// Begin announces the case about to be executed: it is counted as an evaluation and
// written to the crash buffer, so that a worker that dies from something recover()
// cannot see is attributed to an exact case.
// BeginHook, when set, is called at the start of every case with the case hash (monitors
// use it to vary per-case choices that are not part of the case, e.g. the getter order).
var BeginHook func(h uint64)

func (c *Ctx) Begin(cs *Case) {
	c.cur = cs
	c.Res.Evaluations++
	atomic.AddInt64(&progress, 1)
	if BeginHook != nil {
		BeginHook(cs.Hash())
	}
	if c.crash != nil {
		c.scratch = cs.appendBinary(c.scratch[:0])
		if len(c.scratch)+8 <= len(c.crash) {
			copy(c.crash[8:], c.scratch)
			binary.LittleEndian.PutUint64(c.crash[:8], uint64(len(c.scratch)))
		} else {
			binary.LittleEndian.PutUint64(c.crash[:8], 0)
		}
	}
	if c.Res.Evaluations == c.sampleNext {
		if len(c.Res.Samples) < 12 {
			cp := *cs
			c.Res.Samples = append(c.Res.Samples, &cp)
		}
		c.sampleNext = c.sampleNext*4 + 1
	}
}

func readCrashBuf(path string) *Case {
	b, err := os.ReadFile(path)
	if err != nil || len(b) < 8 {
		return nil
	}
	n := binary.LittleEndian.Uint64(b[:8])
	if n == 0 || n > uint64(len(b)-8) {
		return nil
	}
	cs, err := decodeCase(b[8 : 8+n])
	if err != nil {
		return nil
	}
	return cs
}

// DistinctBitmapBits is the size of the bitmap used in the thorough tier.
const DistinctBitmapBits = 1 << 30

func (c *Ctx) mark(h uint64) {
	if c.Tier == "thorough" {
		if c.bits == nil {
			c.bits = make([]uint64, DistinctBitmapBits/64)
		}
		// mix, then take 30 bits
		h ^= h >> 33
		h *= 0xff51afd7ed558ccd
		h ^= h >> 33
		i := h & (DistinctBitmapBits - 1)
		c.bits[i>>6] |= 1 << (i & 63)
		return
	}
	c.distinct[h] = struct{}{}
}

// Nontrivial records the current case as non-trivial by the monitor's rule.
func (c *Ctx) Nontrivial() {
	if c.cur != nil {
		c.mark(c.cur.Hash())
	}
}

// NontrivialKey records a non-trivial case under an explicit identity.
func (c *Ctx) NontrivialKey(key string) { c.mark(hashString(key)) }

// Count bumps a named counter of the evidence.
func (c *Ctx) Count(name string) { c.Res.Counters[name]++ }

// Add adds to a named counter.
func (c *Ctx) Add(name string, n int64) { c.Res.Counters[name] += n }

// Violate reports a refuting observation for the current case.  Known findings are
// filtered by the committed classifiers; everything else becomes a VIOLATION.
func (c *Ctx) Violate(class string, expected, observed any, note string) bool {
	v := &Violation{Case: c.cur, Class: class, Expected: expected, Observed: observed, Note: note}
	return c.ViolateV(v)
}

// ViolateV reports v; it returns false when an open known finding explains it.
func (c *Ctx) ViolateV(v *Violation) bool {
	if v.Case == nil {
		v.Case = c.cur
	}
	if v.Case != nil {
		cp := *v.Case
		v.Case = &cp
	}
	if id := c.KF.Classify(c.Prop, v); id != "" {
		v.Known = id
		c.Res.Known[id]++
		if c.Res.KnownExample[id] == nil {
			c.Res.KnownExample[id] = v.Case
		}
		if c.Replay {
			fmt.Printf("known finding %s: %s\n  case: %s\n  expected: %v\n  observed: %v\n  %s\n", id, v.Class, v.Case.Brief(), v.Expected, v.Observed, v.Note)
		}
		return false
	}
	c.Res.ViolationCount++
	c.Res.ByClass[v.Class]++
	if c.Res.ByClass[v.Class] <= 5 && len(c.Res.Violations) < 40 {
		c.Res.Violations = append(c.Res.Violations, v)
	}
	if c.Replay {
		fmt.Printf("violation: %s\n  case: %s\n  expected: %v\n  observed: %v\n  %s\n", v.Class, v.Case.Brief(), v.Expected, v.Observed, v.Note)
	}
	return true
}

// Inconclusive records a part of the run that could not be decided.
func (c *Ctx) Inconclusive(msg string) {
	if len(c.Res.Inconclusive) < 50 {
		c.Res.Inconclusive = append(c.Res.Inconclusive, msg)
	}
}

// Broken records that the oracle or the observation itself is broken (exit 2).
func (c *Ctx) Broken(msg string) {
	if len(c.Res.Broken) < 20 {
		c.Res.Broken = append(c.Res.Broken, msg)
	}
}

// Panic describes a panic that escaped a call into /repo.
type Panic struct {
	Value  string `json:"value"`
	Site   string `json:"site"` // first /repo frame (file:line) or "?"
	Budget bool   `json:"budget,omitempty"`
}

func (p *Panic) String() string {
	if p == nil {
		return "<none>"
	}
	return fmt.Sprintf("panic at %s: %s", p.Site, p.Value)
}

// StepBudget is the logical step budget for a call whose argument strings total n runes
// (DESIGN.md §2.4): deliberately loose, the property is "terminates", not "is fast".
func StepBudget(nRunes int) int64 { return 64*int64(nRunes) + 4096 }

// Call runs f (which calls into /repo) under the step budget for inputs of the given
// total length, recovering panics.  It returns nil if f returned normally.
func (c *Ctx) Call(nBytes int, f func()) (p *Panic) {
	budget := StepBudget(nBytes)
	url.VerifReset(budget)
	url.VerifEnabled = true
	defer func() {
		url.VerifEnabled = false
		steps := url.VerifSteps
		if url.VerifCursorMoves > steps {
			steps = url.VerifCursorMoves
		}
		if nBytes >= 16 {
			ratio := float64(steps) / float64(nBytes)
			if ratio > c.Res.MaxStepRatio {
				c.Res.MaxStepRatio = ratio
				if c.cur != nil {
					cp := *c.cur
					c.Res.MaxStepCase = &cp
				}
			}
		}
		if r := recover(); r != nil {
			p = &Panic{Value: fmt.Sprint(r), Site: repoFrame()}
			if _, ok := r.(url.VerifBudgetExceeded); ok {
				p.Budget = true
			}
		}
	}()
	f()
	return nil
}

// repoFrame finds the innermost frame of the current (panicking) stack that lies in /repo.
func repoFrame() string {
	pcs := make([]uintptr, 64)
	n := runtime.Callers(3, pcs)
	frames := runtime.CallersFrames(pcs[:n])
	for {
		fr, more := frames.Next()
		if strings.Contains(fr.Function, "github.com/nlnwa/whatwg-url/") && !strings.Contains(fr.File, "verif_on.go") {
			file := fr.File
			if i := strings.LastIndex(file, "/url/"); i >= 0 {
				file = file[i+1:]
			} else if i := strings.LastIndex(file, "/canonicalizer/"); i >= 0 {
				file = file[i+1:]
			}
			return fmt.Sprintf("%s:%d", file, fr.Line)
		}
		if !more {
			break
		}
	}
	return "?"
}

func (c *Ctx) finish() {
	for o := 0; o < 2; o++ {
		for from := 0; from < url.VerifNumStates; from++ {
			for to := 0; to < url.VerifNumStates; to++ {
				if n := url.VerifEdges[o][from][to]; n > 0 {
					key := url.VerifStateName(url.State(from)) + "->" + url.VerifStateName(url.State(to))
					if o == 1 {
						key += "/override"
					}
					c.Res.Edges[key] += n
				}
			}
		}
	}
	c.Res.ParserCalls = url.VerifCalls
	c.Res.Distinct = len(c.distinct)
}

// RuneLen is the number of code points of the scalar-value reading of s.
func RuneLen(s string) int { return utf8.RuneCountInString(s) }
