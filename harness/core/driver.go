package core

import (
	"bytes"
	"encoding/binary"
	"encoding/json"
	"fmt"
	"math/bits"
	"os"
	"os/exec"
	"path/filepath"
	"regexp"
	"runtime"
	"sort"
	"strconv"
	"strings"
	"sync"
	"sync/atomic"
	"syscall"
	"time"
	"unsafe"
)

// Info describes a monitor for the evidence file.
type Info struct {
	Rule        string
	Assumptions []string
	MinDistinct map[string]int // per tier: fewer distinct non-trivial cases => BROKEN-CHECK
	NeedsModel  bool           // run the reference-model self-check first
	Exhaustive  map[string]bool
	RaceBuild   bool // the check only makes sense in the -race binary
}

// Plan says how a tier is split.
type Plan struct {
	Shards     int
	CPUSeconds int // RLIMIT_CPU per worker (0 = default)
	CaseCPU    int // CPU seconds one case may legitimately use before the watchdog ends the worker (0 = 20)
}

// Monitor is one property's check.
type Monitor interface {
	ID() string
	Info() Info
	Plan(tier string) Plan
	Run(ctx *Ctx)           // generate and execute the shard's cases
	Exec(ctx *Ctx, c *Case) // execute one case (also used by replay)
}

var registry = map[string]Monitor{}

func Register(m Monitor) { registry[m.ID()] = m }

// SelfCheck is installed by main: runs the reference-model self-check.
var SelfCheck func(testdata string) (int, error)

// RaceEnabled is set by the race-build variant of the binary.
var RaceEnabled bool

type paths struct {
	verif, work, evidence, replays, testdata, known string
}

func getPaths(prop string) paths {
	root := os.Getenv("VERIF_ROOT")
	if root == "" {
		root = "/verif"
	}
	out := os.Getenv("VERIF_OUT") // where evidence, replays and scratch go (default: the root)
	if out == "" {
		out = root
	}
	return paths{
		verif:    root,
		work:     filepath.Join(out, ".work", prop),
		evidence: filepath.Join(out, "evidence", prop+".json"),
		replays:  filepath.Join(out, "replays", prop),
		testdata: filepath.Join(root, "testdata"),
		known:    filepath.Join(root, "known_findings.json"),
	}
}

func seedFromEnv() int64 {
	if s := os.Getenv("VERIF_SEED"); s != "" {
		if v, err := strconv.ParseInt(s, 10, 64); err == nil {
			return v
		}
	}
	return 1
}

// Main dispatches the vcheck command line.
func Main(args []string) int {
	if len(args) < 1 {
		fmt.Fprintln(os.Stderr, "usage: vcheck run <id> quick|thorough | replay <id> <path> | worker ... | list")
		return 2
	}
	switch args[0] {
	case "list":
		ids := make([]string, 0, len(registry))
		for id := range registry {
			ids = append(ids, id)
		}
		sort.Strings(ids)
		fmt.Println(strings.Join(ids, " "))
		return 0
	case "run":
		if len(args) < 3 {
			return 2
		}
		return runDriver(args[1], args[2])
	case "worker":
		if len(args) < 6 {
			return 2
		}
		return runWorker(args[1], args[2], args[3], args[4], args[5])
	case "single":
		if len(args) < 3 {
			return 2
		}
		return runSingle(args[1], args[2])
	case "replay":
		if len(args) < 3 {
			return 2
		}
		return runReplay(args[1], args[2])
	}
	return 2
}

func brokenExit(prop, reason string) int {
	fmt.Printf("BROKEN-CHECK property=%s %s\n", prop, reason)
	return 2
}

// ---------------------------------------------------------------------------- worker

func runWorker(prop, tier, shardS, nshardsS, dir string) int {
	m := registry[prop]
	if m == nil {
		return 2
	}
	shard, _ := strconv.Atoi(shardS)
	nshards, _ := strconv.Atoi(nshardsS)
	if cpu, _ := strconv.Atoi(os.Getenv("VERIF_CPU_LIMIT")); cpu > 0 {
		lim := syscall.Rlimit{Cur: uint64(cpu), Max: uint64(cpu + 5)}
		_ = syscall.Setrlimit(0 /* RLIMIT_CPU */, &lim)
	}
	p := getPaths(prop)
	kf, err := LoadKnownFindings(p.known)
	if err != nil {
		fmt.Fprintln(os.Stderr, "known findings:", err)
		return 2
	}
	ctx := newCtx(prop, tier, seedFromEnv(), shard, nshards, kf)
	ctx.openCrashBuf(filepath.Join(dir, fmt.Sprintf("crash.%d", shard)))
	// The monitor runs on one OS thread (except C14, whose rounds start goroutines): the watchdog
	// then reads THAT thread's CPU clock.  Process CPU time also contains the runtime's own threads
	// (GC workers, spinning Ms), which on an oversubscribed machine can burn seconds while the
	// monitor's thread is not scheduled at all - a thorough run of C08 under a load of 60 lost a
	// shard that way on a case that takes microseconds.
	watchTid := 0
	if prop != "C14" {
		runtime.LockOSThread()
		watchTid = syscall.Gettid()
	}
	go caseWatchdog(perCaseCPUSeconds(m), watchTid)
	func() {
		// a panic that escapes here is a defect of the harness itself (calls into /repo are
		// recovered inside Ctx.Call): report the check as broken, accuse nobody
		defer func() {
			if r := recover(); r != nil {
				guardRecovered(ctx, r, fmt.Sprintf("shard %d", shard))
			}
		}()
		m.Run(ctx)
	}()
	ctx.finish()
	// distinct hashes
	df := filepath.Join(dir, fmt.Sprintf("distinct.%d", shard))
	var buf []byte
	if ctx.bits != nil {
		// bitmap mode: the file is the bitmap itself, marked by a name suffix
		df += ".bits"
		buf = make([]byte, 8*len(ctx.bits))
		for i, w := range ctx.bits {
			binary.LittleEndian.PutUint64(buf[8*i:], w)
		}
	} else {
		buf = make([]byte, 0, 8*len(ctx.distinct))
		for h := range ctx.distinct {
			buf = binary.LittleEndian.AppendUint64(buf, h)
		}
	}
	if err := os.WriteFile(df, buf, 0o644); err != nil {
		fmt.Fprintln(os.Stderr, err)
		return 2
	}
	ctx.Res.DistinctFile = df
	out, err := json.Marshal(ctx.Res)
	if err != nil {
		fmt.Fprintln(os.Stderr, "marshal result:", err)
		return 2
	}
	if err := os.WriteFile(filepath.Join(dir, fmt.Sprintf("result.%d.json", shard)), out, 0o644); err != nil {
		fmt.Fprintln(os.Stderr, err)
		return 2
	}
	return 0
}

// WatchdogExit is the exit status of a worker whose current case used more CPU than any
// legitimate case does (100x and more); the driver then confirms the case alone.
const WatchdogExit = 4

func perCaseCPUSeconds(m Monitor) int {
	if v, _ := strconv.Atoi(os.Getenv("VERIF_CASE_CPU")); v > 0 {
		return v
	}
	if v := m.Plan("quick").CaseCPU; v > 0 {
		return v
	}
	return 20
}

func processCPU() time.Duration {
	var ru syscall.Rusage
	if syscall.Getrusage(syscall.RUSAGE_SELF, &ru) != nil {
		return 0
	}
	return time.Duration(ru.Utime.Nano() + ru.Stime.Nano())
}

// caseWatchdog ends the worker when one and the same case has consumed more than limit
// seconds of CPU.  It only watches the monitor's own progress counter; it decides nothing:
// the driver re-runs the attributed case alone before anything is reported.
func caseWatchdog(limit int, tid int) {
	cpu := processCPU
	if tid > 0 {
		// the CPU-time clock of one thread: MAKE_THREAD_CPUCLOCK(tid, CPUCLOCK_SCHED)
		clock := uintptr((^uint32(tid))<<3 | 6)
		probe := func() (time.Duration, bool) {
			var ts syscall.Timespec
			if _, _, e := syscall.Syscall(syscall.SYS_CLOCK_GETTIME, uintptr(int32(clock)), uintptr(unsafe.Pointer(&ts)), 0); e != 0 {
				return 0, false
			}
			return time.Duration(ts.Sec)*time.Second + time.Duration(ts.Nsec), true
		}
		if _, ok := probe(); ok {
			cpu = func() time.Duration { d, _ := probe(); return d }
		}
	}
	last := atomic.LoadInt64(&progress)
	start, pstart := cpu(), processCPU()
	for {
		time.Sleep(250 * time.Millisecond)
		now := atomic.LoadInt64(&progress)
		if now != last {
			last, start, pstart = now, cpu(), processCPU()
			continue
		}
		// the monitor thread's own CPU time, or (backstop, e.g. a runaway recursion whose growing
		// stack keeps the collector's threads busy and the monitor thread waiting) six times as
		// much CPU of the whole process
		used := cpu() - start
		if pu := processCPU() - pstart; pu > 6*time.Duration(limit)*time.Second {
			used = pu
		}
		if used > time.Duration(limit)*time.Second {
			fmt.Fprintf(os.Stderr, "WATCHDOG: the current case has used %.0fs of CPU (SIGXCPU-equivalent)\n", used.Seconds())
			os.Exit(WatchdogExit)
		}
	}
}

// guardRecovered decides what a panic that escaped a monitor means.  Monitors wrap the calls
// they judge in Ctx.Call; the cheap reads around them (getters, SearchParams look-ups) are
// called directly.  If the panic was raised inside the library (the innermost non-runtime
// frame below panic() belongs to the module under test), the call did not return normally:
// that is a violation of the property being monitored, reported with the current case.
// Anything else is a defect of the harness itself: the check is broken and accuses nobody.
func guardRecovered(ctx *Ctx, r any, where string) {
	buf := make([]byte, 64<<10)
	buf = buf[:runtime.Stack(buf, false)]
	if fn := panicOrigin(string(buf)); strings.HasPrefix(fn, "github.com/nlnwa/whatwg-url/") && ctx.cur != nil {
		ctx.Nontrivial()
		ctx.Violate("the library panics in a call the monitor makes (outside the step-budgeted calls)", "returns normally", fmt.Sprint(r), "in "+fn+" ("+where+"; the rest of this shard's workload was not run)")
		return
	}
	if len(buf) > 6000 {
		buf = buf[:6000]
	}
	ctx.Broken(fmt.Sprintf("harness panic in %s: %v\n%s", where, r, buf))
}

// panicOrigin returns the function that raised the panic: the first frame below "panic(" that
// is not part of the Go runtime.
func panicOrigin(stack string) string {
	lines := strings.Split(stack, "\n")
	seen := false
	for _, l := range lines {
		if strings.HasPrefix(l, "\t") || l == "" {
			continue
		}
		if strings.HasPrefix(l, "panic(") {
			seen = true
			continue
		}
		if !seen || strings.HasPrefix(l, "runtime.") || strings.HasPrefix(l, "runtime/") {
			continue
		}
		if i := strings.LastIndexByte(l, '('); i > 0 {
			return l[:i]
		}
		return l
	}
	return ""
}

// execGuarded runs one case; a panic that escapes is classified by guardRecovered.
func execGuarded(ctx *Ctx, m Monitor, cs *Case, where string) {
	defer func() {
		if r := recover(); r != nil {
			guardRecovered(ctx, r, where)
		}
	}()
	ctx.Begin(cs)
	m.Exec(ctx, cs)
}

// runSingle executes one case from a crash buffer alone (confirmation of a watchdog hit).
func runSingle(prop, crashFile string) int {
	m := registry[prop]
	cs := readCrashBuf(crashFile)
	if m == nil || cs == nil {
		return 3
	}
	lim := syscall.Rlimit{Cur: uint64(2 * perCaseCPUSeconds(m)), Max: uint64(2*perCaseCPUSeconds(m) + 5)}
	_ = syscall.Setrlimit(0, &lim)
	p := getPaths(prop)
	kf, _ := LoadKnownFindings(p.known)
	ctx := newCtx(prop, "quick", seedFromEnv(), 0, 1, kf)
	execGuarded(ctx, m, cs, "single case")
	if ctx.Res.ViolationCount > 0 {
		return 1
	}
	return 0
}

// ---------------------------------------------------------------------------- replay

// ReplayFile is what is written to /verif/replays/<id>/.
type ReplayFile struct {
	Property  string     `json:"property"`
	Tier      string     `json:"tier"`
	Seed      int64      `json:"seed"`
	RepoHead  string     `json:"repo_head"`
	Kind      string     `json:"kind"` // "violation", "crash", "race"
	Violation *Violation `json:"violation,omitempty"`
	Log       string     `json:"log,omitempty"`
}

func runReplay(prop, path string) int {
	m := registry[prop]
	if m == nil {
		return 2
	}
	raw, err := os.ReadFile(path)
	if err != nil {
		fmt.Fprintln(os.Stderr, err)
		return 2
	}
	var rf ReplayFile
	if err := json.Unmarshal(raw, &rf); err != nil {
		fmt.Fprintln(os.Stderr, err)
		return 2
	}
	if rf.Kind == "race" || rf.Violation == nil || rf.Violation.Case == nil {
		// a race report has no single case: a schedule cannot be replayed, the check is re-run
		fmt.Println("this replay file records a race-detector report; schedules cannot be replayed, re-running the quick tier of the check instead")
		fmt.Println(clip(rf.Log, 1500))
		return runDriver(prop, "quick")
	}
	if rf.Kind == "crash" {
		// the case killed its worker (fatal error / CPU limit): replay it in a child process
		p := getPaths(prop)
		_ = os.MkdirAll(p.work, 0o755)
		cf := filepath.Join(p.work, "replay.crash")
		payload := rf.Violation.Case.appendBinary(nil)
		buf := make([]byte, 8+len(payload))
		binary.LittleEndian.PutUint64(buf[:8], uint64(len(payload)))
		copy(buf[8:], payload)
		if err := os.WriteFile(cf, buf, 0o644); err != nil {
			return brokenExit(prop, err.Error())
		}
		self, _ := os.Executable()
		fmt.Printf("replaying %s in a child process: %s\n", prop, rf.Violation.Case.Brief())
		out, err := exec.Command(self, "single", prop, cf).CombinedOutput()
		os.Remove(cf)
		ee, isExit := err.(*exec.ExitError)
		if err == nil || (isExit && ee.ExitCode() == 1 && !strings.Contains(string(out), "fatal error")) {
			fmt.Println("the case returns normally on the current tree")
			if isExit {
				fmt.Printf("VIOLATION property=%s replay=%s\n", prop, path)
				return 1
			}
			return 0
		}
		fmt.Println(tail(string(out), 2000))
		fmt.Printf("VIOLATION property=%s replay=%s\n", prop, path)
		return 1
	}
	p := getPaths(prop)
	kf, err := LoadKnownFindings(p.known)
	if err != nil {
		fmt.Fprintln(os.Stderr, err)
		return 2
	}
	if m.Info().NeedsModel && SelfCheck != nil {
		if _, err := SelfCheck(p.testdata); err != nil {
			return brokenExit(prop, err.Error())
		}
	}
	ctx := newCtx(prop, rf.Tier, rf.Seed, 0, 1, kf)
	ctx.Replay = true
	fmt.Printf("replaying %s: %s\n", prop, rf.Violation.Case.Brief())
	execGuarded(ctx, m, rf.Violation.Case, "replay")
	if len(ctx.Res.Broken) > 0 {
		return brokenExit(prop, strings.Join(ctx.Res.Broken, "; "))
	}
	if ctx.Res.ViolationCount > 0 {
		fmt.Printf("VIOLATION property=%s replay=%s\n", prop, path)
		return 1
	}
	fmt.Println("no violation on the current tree")
	return 0
}

// ---------------------------------------------------------------------------- driver

// RepoDir is the tree the library was built from (/repo unless VERIF_REPO points at a scratch worktree).
func RepoDir() string {
	if r := os.Getenv("VERIF_REPO"); r != "" {
		return r
	}
	return "/repo"
}

func repoHead() string {
	out, err := exec.Command("git", "-C", RepoDir(), "describe", "--always", "--dirty").Output()
	if err != nil {
		return "unknown"
	}
	return strings.TrimSpace(string(out))
}

type workerOutcome struct {
	shard  int
	res    *ShardResult
	err    error
	stderr string
	signal string
}

func runDriver(prop, tier string) int {
	start := time.Now()
	m := registry[prop]
	if m == nil {
		fmt.Fprintf(os.Stderr, "unknown property %s\n", prop)
		return 2
	}
	if tier != "quick" && tier != "thorough" {
		fmt.Fprintf(os.Stderr, "unknown tier %s\n", tier)
		return 2
	}
	info := m.Info()
	if info.RaceBuild && !RaceEnabled {
		return brokenExit(prop, "this check must run in the -race build of vcheck (use run.sh)")
	}
	p := getPaths(prop)
	seed := seedFromEnv()
	_ = os.RemoveAll(p.work)
	if err := os.MkdirAll(p.work, 0o755); err != nil {
		return brokenExit(prop, err.Error())
	}
	defer os.RemoveAll(p.work)
	_ = os.MkdirAll(filepath.Dir(p.evidence), 0o755)
	_ = os.Remove(p.evidence)

	kf, err := LoadKnownFindings(p.known)
	if err != nil {
		return brokenExit(prop, "known_findings.json: "+err.Error())
	}
	modelVectors := 0
	if info.NeedsModel {
		if SelfCheck == nil {
			return brokenExit(prop, "no self-check installed")
		}
		n, err := SelfCheck(p.testdata)
		if err != nil {
			return brokenExit(prop, err.Error())
		}
		modelVectors = n
	}

	plan := m.Plan(tier)
	if plan.Shards < 1 {
		plan.Shards = 1
	}
	if plan.CPUSeconds == 0 {
		plan.CPUSeconds = 1200
		if tier == "thorough" {
			plan.CPUSeconds = 7200
		}
	}
	self, _ := os.Executable()
	par := runtime.NumCPU()
	if v, _ := strconv.Atoi(os.Getenv("VERIF_JOBS")); v > 0 {
		par = v
	}
	sem := make(chan struct{}, par)
	outcomes := make([]workerOutcome, plan.Shards)
	var wg sync.WaitGroup
	for s := 0; s < plan.Shards; s++ {
		wg.Add(1)
		go func(s int) {
			defer wg.Done()
			sem <- struct{}{}
			defer func() { <-sem }()
			cmd := exec.Command(self, "worker", prop, tier, strconv.Itoa(s), strconv.Itoa(plan.Shards), p.work)
			cmd.Env = append(os.Environ(),
				"VERIF_SEED="+strconv.FormatInt(seed, 10),
				"VERIF_CPU_LIMIT="+strconv.Itoa(plan.CPUSeconds),
				"GORACE=halt_on_error=0 log_path="+filepath.Join(p.work, fmt.Sprintf("race.%d", s)),
				"GOTRACEBACK=single")
			var stderr bytes.Buffer
			cmd.Stderr = &stderr
			cmd.Stdout = &stderr
			err := cmd.Run()
			o := workerOutcome{shard: s, err: err, stderr: tail(stderr.String(), 6000)}
			if ee, ok := err.(*exec.ExitError); ok {
				if ws, ok := ee.Sys().(syscall.WaitStatus); ok && ws.Signaled() {
					o.signal = ws.Signal().String()
				}
			}
			if raw, rerr := os.ReadFile(filepath.Join(p.work, fmt.Sprintf("result.%d.json", s))); rerr == nil {
				var r ShardResult
				if json.Unmarshal(raw, &r) == nil {
					o.res = &r
				}
			}
			outcomes[s] = o
		}(s)
	}
	wg.Wait()

	// ---- merge
	head := repoHead()
	merged := &ShardResult{Counters: map[string]int64{}, ByClass: map[string]int64{}, Known: map[string]int64{},
		KnownExample: map[string]*Case{}, Edges: map[string]uint64{}, Extra: map[string]any{}, Lists: map[string][]string{}}
	var distinctAll []uint64
	var bitmap []uint64
	var replayFiles []string
	var crashes []string
	nextReplay := 0
	writeReplay := func(rf *ReplayFile) string {
		_ = os.MkdirAll(p.replays, 0o755)
		rf.Property, rf.Tier, rf.Seed, rf.RepoHead = prop, tier, seed, head
		name := filepath.Join(p.replays, fmt.Sprintf("%s-%s-seed%d-%03d.json", prop, tier, seed, nextReplay))
		nextReplay++
		raw, _ := json.MarshalIndent(rf, "", " ")
		_ = os.WriteFile(name, raw, 0o644)
		replayFiles = append(replayFiles, name)
		return name
	}
	// confirmations of CPU-watchdog hits: each attributed case alone, all of them in parallel
	type confirmation struct {
		finished bool
		out      string
	}
	confirmations := map[int]confirmation{}
	{
		var cmu sync.Mutex
		var cwg sync.WaitGroup
		for _, o := range outcomes {
			if o.res != nil {
				continue
			}
			crashFile := filepath.Join(p.work, fmt.Sprintf("crash.%d", o.shard))
			if readCrashBuf(crashFile) == nil {
				continue
			}
			cwg.Add(1)
			go func(shard int, crashFile string) {
				defer cwg.Done()
				c2 := exec.Command(self, "single", prop, crashFile)
				c2.Env = append(os.Environ(), "VERIF_SEED="+strconv.FormatInt(seed, 10), "GOTRACEBACK=single")
				out, err2 := c2.CombinedOutput()
				fin := err2 == nil
				if ee, ok := err2.(*exec.ExitError); ok && ee.ExitCode() == 1 {
					fin = true // the case alone returns (with an ordinary violation): not a hang, not a fatal error
				}
				cmu.Lock()
				confirmations[shard] = confirmation{fin, tail(string(out), 3000)}
				cmu.Unlock()
			}(o.shard, crashFile)
		}
		cwg.Wait()
	}
	for _, o := range outcomes {
		if o.res == nil {
			// the worker died: attribute to the case in its crash buffer
			crashFile := filepath.Join(p.work, fmt.Sprintf("crash.%d", o.shard))
			cs := readCrashBuf(crashFile)
			cpuLimit := strings.Contains(o.stderr, "SIGXCPU") || strings.Contains(o.stderr, "WATCHDOG") || o.signal == "CPU time limit exceeded" || o.signal == "killed"
			if cs == nil {
				merged.Broken = append(merged.Broken, fmt.Sprintf("shard %d died without an attributable case: %v %s", o.shard, o.err, tail(o.stderr, 400)))
				continue
			}
			if cpuLimit {
				// confirmed alone under its own CPU limit?
				conf := confirmations[o.shard]
				if conf.finished {
					merged.Inconclusive = append(merged.Inconclusive, fmt.Sprintf("shard %d hit the CPU watchdog at case %s; the case alone finishes: shard not claimed", o.shard, cs.Brief()))
					continue
				}
				o.stderr = o.stderr + "\n--- single re-run ---\n" + conf.out
			}
			kind := "crash"
			class := "worker process died (fatal error or CPU limit) while executing this case"
			v := &Violation{Case: cs, Class: class, Observed: tail(o.stderr, 3000)}
			if id := kf.Classify(prop, v); id != "" {
				merged.Known[id]++
				merged.KnownExample[id] = cs
				continue
			}
			merged.ViolationCount++
			merged.ByClass[class]++
			writeReplay(&ReplayFile{Kind: kind, Violation: v, Log: o.stderr})
			crashes = append(crashes, cs.Brief())
			continue
		}
		r := o.res
		merged.Evaluations += r.Evaluations
		merged.ParserCalls += r.ParserCalls
		for k, v := range r.Counters {
			merged.Counters[k] += v
		}
		for k, v := range r.ByClass {
			merged.ByClass[k] += v
		}
		for k, v := range r.Known {
			merged.Known[k] += v
			if merged.KnownExample[k] == nil {
				merged.KnownExample[k] = r.KnownExample[k]
			}
		}
		for k, v := range r.Edges {
			merged.Edges[k] += v
		}
		for k, v := range r.Extra {
			merged.Extra[fmt.Sprintf("%s[shard %d]", k, r.Shard)] = v
		}
		for k, v := range r.Lists {
			merged.Lists[k] = append(merged.Lists[k], v...)
		}
		if r.MaxStepRatio > merged.MaxStepRatio {
			merged.MaxStepRatio, merged.MaxStepCase = r.MaxStepRatio, r.MaxStepCase
		}
		merged.Samples = append(merged.Samples, r.Samples...)
		merged.Inconclusive = append(merged.Inconclusive, r.Inconclusive...)
		merged.Broken = append(merged.Broken, r.Broken...)
		merged.ViolationCount += r.ViolationCount
		merged.Violations = append(merged.Violations, r.Violations...)
		if raw, err := os.ReadFile(r.DistinctFile); err == nil {
			if strings.HasSuffix(r.DistinctFile, ".bits") {
				if bitmap == nil {
					bitmap = make([]uint64, len(raw)/8)
				}
				for i := 0; i+8 <= len(raw) && i/8 < len(bitmap); i += 8 {
					bitmap[i/8] |= binary.LittleEndian.Uint64(raw[i:])
				}
				os.Remove(r.DistinctFile)
			} else {
				for i := 0; i+8 <= len(raw); i += 8 {
					distinctAll = append(distinctAll, binary.LittleEndian.Uint64(raw[i:]))
				}
			}
		}
	}

	sort.Slice(distinctAll, func(i, j int) bool { return distinctAll[i] < distinctAll[j] })
	nDistinct := 0
	for i, h := range distinctAll {
		if i == 0 || h != distinctAll[i-1] {
			nDistinct++
		}
	}
	distinctAll = nil
	distinctHow := "exact (set of 64-bit case hashes)"
	if bitmap != nil {
		for _, w := range bitmap {
			nDistinct += bits.OnesCount64(w)
		}
		bitmap = nil
		distinctHow = "conservative: population count of a 2^30-bit bitmap of case hashes OR-ed over the shards (collisions can only lower the count)"
	}

	// ---- race-detector logs
	raceReports := 0
	raceByPair := map[string]int{}
	if logs, _ := filepath.Glob(filepath.Join(p.work, "race.*")); len(logs) > 0 {
		for _, lf := range logs {
			raw, _ := os.ReadFile(lf)
			for _, block := range splitRaceBlocks(string(raw)) {
				raceReports++
				key := raceKey(block)
				raceByPair[key]++
				if raceByPair[key] == 1 {
					v := &Violation{Class: "data race reported by the race detector", Observed: key}
					if id := kf.Classify(prop, v); id != "" {
						merged.Known[id]++
						continue
					}
					merged.ViolationCount++
					merged.ByClass[v.Class]++
					writeReplay(&ReplayFile{Kind: "race", Violation: v, Log: block})
				}
			}
		}
	}

	// ---- violations -> replay files (a few per class)
	perClass := map[string]int{}
	for _, v := range merged.Violations {
		perClass[v.Class]++
		if perClass[v.Class] <= 3 && len(replayFiles) < 30 {
			writeReplay(&ReplayFile{Kind: "violation", Violation: v})
		}
	}

	// ---- evidence
	samples := pickSamples(merged.Samples, 8)
	edgeList := make([]string, 0, len(merged.Edges))
	for k, v := range merged.Edges {
		edgeList = append(edgeList, fmt.Sprintf("%s:%d", k, v))
	}
	sort.Strings(edgeList)
	coverage := map[string]any{
		"evaluations":                  merged.Evaluations,
		"distinct_nontrivial":          nDistinct,
		"rule":                         info.Rule,
		"distinct_counting":            distinctHow,
		"samples":                      samples,
		"counters":                     merged.Counters,
		"shards":                       plan.Shards,
		"parser_calls_seen_by_hook":    merged.ParserCalls,
		"parser_transition_edges_seen": len(merged.Edges),
		"parser_transition_edges":      edgeList,
		"max_steps_per_input_byte":     merged.MaxStepRatio,
		"known_finding_hits":           merged.Known,
		"violations_by_class":          merged.ByClass,
		"inconclusive":                 merged.Inconclusive,
		"repo_head":                    head,
	}
	if merged.MaxStepCase != nil {
		coverage["max_steps_case"] = clip(merged.MaxStepCase.Brief(), 300)
	}
	if info.Exhaustive[tier] {
		coverage["exhaustive"] = true
	}
	if info.NeedsModel {
		coverage["model_selfcheck_vectors"] = modelVectors
	}
	if RaceEnabled {
		coverage["race_detector"] = map[string]any{"enabled": true, "reports": raceReports, "by_entry_point_pair": raceByPair}
	}
	for k, v := range merged.Extra {
		coverage[k] = v
	}
	for k, v := range merged.Lists {
		sort.Strings(v)
		coverage[k] = uniq(v)
	}
	ev := map[string]any{
		"property_id": prop,
		"tier":        tier,
		"seed":        seed,
		"level":       "exploration",
		"coverage":    coverage,
		"assumptions": info.Assumptions,
		"wall_s":      time.Since(start).Seconds(),
		"violations":  merged.ViolationCount,
	}

	status := 0
	minD := info.MinDistinct[tier]
	if len(merged.Broken) > 0 {
		status = 2
	} else if merged.ViolationCount == 0 && nDistinct < minD {
		merged.Broken = append(merged.Broken, fmt.Sprintf("only %d distinct non-trivial cases observed (minimum %d)", nDistinct, minD))
		status = 2
	}
	if merged.ViolationCount > 0 {
		status = 1
	}
	ev["wall_s"] = time.Since(start).Seconds()
	if status != 2 && nDistinct >= 2 && merged.Evaluations >= 1 {
		raw, _ := json.MarshalIndent(ev, "", " ")
		if err := os.WriteFile(p.evidence, raw, 0o644); err != nil {
			return brokenExit(prop, err.Error())
		}
	}

	// ---- report
	fmt.Printf("%s %s seed=%d: %d evaluations, %d distinct non-trivial, %d shards, %.1fs, repo %s\n",
		prop, tier, seed, merged.Evaluations, nDistinct, plan.Shards, time.Since(start).Seconds(), head)
	keys := make([]string, 0, len(merged.Counters))
	for k := range merged.Counters {
		keys = append(keys, k)
	}
	sort.Strings(keys)
	var sb strings.Builder
	for _, k := range keys {
		fmt.Fprintf(&sb, " %s=%d", k, merged.Counters[k])
	}
	if sb.Len() > 0 {
		fmt.Printf("  observed:%s\n", clip(sb.String(), 3000))
	}
	for _, msg := range merged.Inconclusive {
		fmt.Printf("  INCONCLUSIVE: %s\n", clip(msg, 500))
	}
	kids := make([]string, 0, len(merged.Known))
	for id := range merged.Known {
		kids = append(kids, id)
	}
	sort.Strings(kids)
	for _, id := range kids {
		what := ""
		if e := kf.entry(id); e != nil {
			what = e.What
		}
		ex := ""
		if c := merged.KnownExample[id]; c != nil {
			ex = " e.g. " + clip(c.Brief(), 200)
		}
		fmt.Printf("KNOWN-FINDING: property=%s %s: %s (%d hits%s)\n", prop, id, what, merged.Known[id], ex)
	}
	if status == 2 {
		for _, b := range merged.Broken {
			fmt.Printf("BROKEN-CHECK property=%s %s\n", prop, clip(b, 800))
		}
		return 2
	}
	if status == 1 {
		classes := make([]string, 0, len(merged.ByClass))
		for k := range merged.ByClass {
			classes = append(classes, k)
		}
		sort.Strings(classes)
		for _, k := range classes {
			fmt.Printf("  violated: %s (%d cases)\n", k, merged.ByClass[k])
		}
		for _, c := range crashes {
			fmt.Printf("  crashed on: %s\n", clip(c, 300))
		}
		for i, v := range merged.Violations {
			if i >= 6 {
				break
			}
			fmt.Printf("  e.g. [%s] %s\n       expected=%s observed=%s %s\n", v.Class, clip(v.Case.Brief(), 400),
				clip(fmt.Sprint(v.Expected), 300), clip(fmt.Sprint(v.Observed), 300), clip(v.Note, 300))
		}
		for _, f := range replayFiles {
			fmt.Printf("VIOLATION property=%s replay=%s\n", prop, f)
		}
		if len(replayFiles) == 0 {
			fmt.Printf("VIOLATION property=%s replay=%s\n", prop, "none")
		}
		return 1
	}
	return 0
}

func uniq(v []string) []string {
	out := v[:0]
	for i, s := range v {
		if i == 0 || s != v[i-1] {
			out = append(out, s)
		}
	}
	return out
}

func tail(s string, n int) string {
	if len(s) <= n {
		return s
	}
	return "..." + s[len(s)-n:]
}

func pickSamples(all []*Case, n int) []any {
	// spread over shards and over positions: take every k-th
	out := []any{}
	if len(all) == 0 {
		return out
	}
	step := len(all) / n
	if step < 1 {
		step = 1
	}
	for i := 0; i < len(all) && len(out) < n; i += step {
		c := *all[i]
		if len(c.Input) > 300 {
			c.Input = S(clip(string(c.Input), 300))
		}
		if len(c.Base) > 300 {
			c.Base = S(clip(string(c.Base), 300))
		}
		if len(c.Alt) > 300 {
			c.Alt = S(clip(string(c.Alt), 300))
		}
		if len(c.Ops) > 12 {
			c.Ops = c.Ops[:12]
		}
		for i, o := range c.Ops {
			for j, a := range o.Args {
				if len(a) > 200 {
					args := append([]S(nil), o.Args...)
					args[j] = S(clip(string(a), 200))
					c.Ops[i].Args = args
				}
			}
		}
		out = append(out, c)
	}
	return out
}

var raceFrameRe = regexp.MustCompile(`(?m)^\s+(github\.com/nlnwa/whatwg-url/\S+?)\(\)\s*$`)

func splitRaceBlocks(log string) []string {
	var out []string
	parts := strings.Split(log, "WARNING: DATA RACE")
	for _, p := range parts[1:] {
		out = append(out, "WARNING: DATA RACE"+p)
	}
	return out
}

// raceKey de-duplicates a race report by the /repo functions on its two stacks
// (line numbers stripped): innermost /repo frame of each access.
func raceKey(block string) string {
	// split the two access stacks: "Write at ... by goroutine" / "Previous read at ..."
	sections := regexp.MustCompile(`(?m)^(Read|Write|Previous read|Previous write) at .*$`).Split(block, -1)
	var keys []string
	for _, sec := range sections[1:] {
		// cut at "Goroutine N (running) created at:"
		if i := strings.Index(sec, "Goroutine "); i >= 0 {
			sec = sec[:i]
		}
		m := raceFrameRe.FindAllStringSubmatch(sec, -1)
		if len(m) > 0 {
			inner := m[0][1]
			outer := m[len(m)-1][1]
			keys = append(keys, strings.TrimPrefix(inner, "github.com/nlnwa/whatwg-url/")+" <- "+strings.TrimPrefix(outer, "github.com/nlnwa/whatwg-url/"))
		} else {
			keys = append(keys, "(no /repo frame)")
		}
	}
	sort.Strings(keys)
	return strings.Join(keys, " || ")
}
