package mon

import (
	"fmt"
	"strings"

	"github.com/nlnwa/whatwg-url/url"

	"verif/core"
	"verif/gen"
	"verif/refmodel"
)

// C10 — percent-encode sets match the standard; encode/decode obey their laws.
type c10 struct{}

func init() { core.Register(c10{}) }

func (c10) ID() string { return "C10" }

type namedSet struct {
	name  string
	impl  *url.PercentEncodeSet
	model refmodel.Set
}

func namedSets() []namedSet {
	return []namedSet{
		{"C0 control", url.C0PercentEncodeSet, refmodel.C0ControlSet},
		{"fragment", url.FragmentPercentEncodeSet, refmodel.FragmentSet},
		{"query", url.QueryPercentEncodeSet, refmodel.QuerySet},
		{"special-query", url.SpecialQueryPercentEncodeSet, refmodel.SpecialQuerySet},
		{"path", url.PathPercentEncodeSet, refmodel.PathSet},
		{"userinfo", url.UserInfoPercentEncodeSet, refmodel.UserinfoSet},
	}
}

type codec interface {
	PercentEncodeString(s string, tr *url.PercentEncodeSet) string
	DecodePercentEncoded(s string) string
}

func (c10) Info() core.Info {
	return core.Info{
		Rule: "(a) 'membership': all 0x110000 code points x the 6 named sets, RuneShouldBeEncoded vs the predicates of SPEC-NOTES §A (exhaustive, every run); " +
			"(b) 'derive': random Set/Clear chains on every named set and on derived sets: the derived set differs exactly in the named code points, the " +
			"parent's membership on all code points < 0x100 plus probes, and the table fingerprint hook, are unchanged; (c) 'string': encode/decode laws on strings over an alphabet of " +
			"set members, non-members, existing escapes, lone '%', astral and invalid bytes: exact expected encoding recomputed from the predicate " +
			"(nothing in the set left, uppercase hex of UTF-8 bytes, everything else untouched), idempotence, decode(encode(s)) laws. " +
			"Non-trivial: every membership probe of a distinct (set, code point), every derived set, every string containing at least one member of the set; distinct by identity.",
		Assumptions: []string{"the predicates of SPEC-NOTES.md §A are the standard's sets", "invalid UTF-8 in a string reads as U+FFFD (s' = string([]rune(s)))"},
		MinDistinct: map[string]int{"quick": 100000, "thorough": 1000000},
		Exhaustive:  map[string]bool{"quick": true, "thorough": true},
	}
}

func (c10) Plan(tier string) core.Plan { return core.Plan{Shards: 16} }

var c10Atoms = []string{"a", "Z", "0", " ", "\"", "#", "<", ">", "?", "`", "{", "}", "'", "/", ":", ";", "=", "@", "[", "\\", "]", "^", "|", "%", "%41", "%2f", "%2F", "%zz", "%4", "%%", "~", "-", ".", "_", "!", "$", "&", "(", ")", "*", "+", ",",
	"\x00", "\x1f", "\x7f", "\u0080", "é", "ÿ", "Ā", "߿", "ࠀ", "€", "�", "￿", "\U00010000", "🌈", "\U0010ffff", "\xff", "\xc3", "\xed\xa0\x80", "\t", "\n"}

func c10String(ctx *core.Ctx) string {
	n := 1 + ctx.Rng.IntN(8)
	var sb strings.Builder
	for i := 0; i < n; i++ {
		sb.WriteString(gen.Pick(ctx.Rng, c10Atoms))
	}
	return sb.String()
}

func (m c10) Run(ctx *core.Ctx) {
	// (a) exhaustive membership: each shard takes a slice of the code point range
	per := 0x110000 / ctx.NShards
	lo, hi := ctx.Shard*per, (ctx.Shard+1)*per
	if ctx.Shard == ctx.NShards-1 {
		hi = 0x110000
	}
	cs := &core.Case{Check: "membership", N: lo, Alt: core.S(fmt.Sprint(hi))}
	ctx.Begin(cs)
	m.Exec(ctx, cs)

	nd := split(tierN(ctx.Tier, 10_000, 60_000), ctx.Shard, ctx.NShards)
	for i := int64(0); i < nd; i++ {
		k := 1 + ctx.Rng.IntN(4)
		ops := make([]core.Op, k)
		for j := range ops {
			name := "Set"
			if ctx.Rng.IntN(2) == 0 {
				name = "Clear"
			}
			cnt := 1 + ctx.Rng.IntN(3)
			args := make([]core.S, cnt)
			for a := range args {
				args[a] = core.S(fmt.Sprint(ctx.Rng.IntN(0x7f)))
			}
			ops[j] = core.Op{Name: name, Args: args}
		}
		cs := &core.Case{Check: "derive", N: ctx.Rng.IntN(6), Ops: ops}
		ctx.Begin(cs)
		m.Exec(ctx, cs)
	}
	ns := split(tierN(ctx.Tier, 800_000, 30_000_000), ctx.Shard, ctx.NShards)
	for i := int64(0); i < ns; i++ {
		var ops []core.Op
		if ctx.Rng.IntN(3) == 0 { // derived set
			name := "Set"
			if ctx.Rng.IntN(2) == 0 {
				name = "Clear"
			}
			ops = []core.Op{{Name: name, Args: []core.S{core.S(fmt.Sprint(gen.Pick(ctx.Rng, []int{'%', 'g', ' ', '/', '~', '?', '&', '+', '.', '<'})))}}}
		}
		s := c10String(ctx)
		if ctx.Rng.IntN(10) == 0 {
			s = gen.Input(ctx.Rng)
		}
		cs := &core.Case{Check: "string", N: ctx.Rng.IntN(6), Input: core.S(s), Ops: ops}
		if ctx.Rng.IntN(4) == 0 {
			cs.Config = []string{"singlepercent"}
		}
		ctx.Begin(cs)
		m.Exec(ctx, cs)
	}
}

func atoi(s string) int {
	n := 0
	fmt.Sscan(s, &n)
	return n
}

// applyOps derives the implementation's set by the Set/Clear chain.
func applyOps(base namedSet, ops []core.Op) *url.PercentEncodeSet {
	is := base.impl
	for _, o := range ops {
		var cps []uint
		for _, a := range o.Args {
			cps = append(cps, uint(atoi(string(a))))
		}
		if o.Name == "Set" {
			is = is.Set(cps...)
		} else {
			is = is.Clear(cps...)
		}
	}
	return is
}

func (c10) Exec(ctx *core.Ctx, cs *core.Case) {
	sets := namedSets()
	switch cs.Check {
	case "membership":
		lo, hi := cs.N, atoi(string(cs.Alt))
		for r := rune(lo); r < rune(hi); r++ {
			for i, s := range sets {
				want := s.model(r)
				got := s.impl.RuneShouldBeEncoded(r)
				if want != got {
					ctx.Violate("set membership differs from the standard", fmt.Sprintf("%s: U+%04X in set = %v", s.name, r, want), got, "")
				}
				if r < 0x100 && s.impl.ByteShouldBeEncoded(byte(r)) != want {
					ctx.Violate("byte membership differs from the standard", fmt.Sprintf("%s: byte 0x%02X in set = %v", s.name, r, want), !want, "")
				}
				if r <= 0x7E && s.impl.RuneNotInSet(r) == want {
					// the complement query; above U+007E it is not a membership test (the encoder asks it about raw bytes)
					ctx.Violate("RuneNotInSet disagrees with the standard's set", fmt.Sprintf("%s: U+%04X in set = %v", s.name, r, want), want, "")
				}
				ctx.NontrivialKey(fmt.Sprintf("m/%d/%d", i, r))
			}
		}
		ctx.Add("membership_probes", int64(hi-lo)*int64(len(sets)))
	case "derive":
		base := sets[cs.N%len(sets)]
		before := setProfile(base.impl)
		fpBefore := url.VerifTableFingerprint()
		var derived *url.PercentEncodeSet
		if pan := ctx.Call(64, func() { derived = applyOps(base, cs.Ops) }); pan != nil {
			ctx.Violate("Set/Clear panics", "no panic", pan.String(), "")
			return
		}
		ctx.Nontrivial()
		ctx.Count("derived_sets")
		if after := setProfile(base.impl); after != before {
			ctx.Violate("deriving a set altered the set it was derived from", base.name+" unchanged", firstDiff(before, after), "")
		}
		if url.VerifTableFingerprint() != fpBefore {
			ctx.Violate("deriving a set altered a package-level table (fingerprint hook)", "unchanged", "changed", "")
		}
		// the derived set: last operation on each code point decides, everything else as the parent
		final := map[rune]bool{}
		for _, o := range cs.Ops {
			for _, a := range o.Args {
				final[rune(atoi(string(a)))] = o.Name == "Set"
			}
		}
		for r := rune(0); r < 0x100; r++ {
			want := base.model(r)
			if v, ok := final[r]; ok {
				if !v && r <= 0x20 {
					continue // clearing a member-by-range: either outcome is accepted
				}
				want = v
			}
			if got := derived.RuneShouldBeEncoded(r); got != want {
				ctx.Violate("derived set has the wrong members", fmt.Sprintf("U+%04X in derived(%s) = %v", r, base.name, want), got, "")
			}
		}
	case "string":
		base := sets[cs.N%len(sets)]
		is, ms := base.impl, base.model
		pctInSet := false
		if len(cs.Ops) == 1 {
			cp := rune(atoi(cs.Ops[0].Arg(0)))
			if cs.Ops[0].Name == "Set" {
				is = is.Set(uint(cp))
				prev := ms
				ms = func(r rune) bool { return r == cp || prev(r) }
			} else {
				if cp < 0x20 || (cp == 0x20 && base.name != "C0 control") {
					// members by range cannot be cleared; keep the parent
				} else {
					is = is.Clear(uint(cp))
					prev := ms
					ms = func(r rune) bool { return r != cp && prev(r) }
				}
			}
		}
		pctInSet = ms('%')
		single := len(cs.Config) > 0 && cs.Config[0] == "singlepercent"
		var pp url.Parser = url.NewParser()
		if single {
			pp = url.NewParser(url.WithPercentEncodeSinglePercentSign())
		}
		p, ok := pp.(codec)
		if !ok {
			ctx.Broken("PercentEncodeString/DecodePercentEncoded are not reachable on the value url.NewParser() returns")
			return
		}
		s := string(cs.Input)
		sp := refmodel.Scalar(s)
		var enc, enc2, dec, decOrig string
		if pan := ctx.Call(4*len(s)+16, func() {
			enc = p.PercentEncodeString(s, is)
			enc2 = p.PercentEncodeString(enc, is)
			dec = p.DecodePercentEncoded(enc)
			decOrig = p.DecodePercentEncoded(sp)
		}); pan != nil {
			ctx.Violate("encode/decode panics", "no panic", pan.String(), "")
			return
		}
		want := refmodel.EncodeString(s, ms)
		if single {
			// documented effect of the option: a '%' that is not followed by two hex digits is
			// encoded as %25; everything else as without the option
			rs := []rune(s)
			var sb strings.Builder
			for i, r := range rs {
				if r == '%' && !(i+2 < len(rs) && isHexRune(rs[i+1]) && isHexRune(rs[i+2])) {
					sb.WriteString("%25")
				} else {
					sb.WriteString(refmodel.EncodeRune(r, ms))
				}
			}
			want = sb.String()
		}
		member := false
		for _, r := range sp {
			if ms(r) {
				member = true
			}
		}
		if member {
			ctx.Nontrivial()
			ctx.Count("strings_with_members")
		}
		if enc != want {
			ctx.Violate("percent-encoding differs from the standard's (members encoded as uppercase-hex UTF-8 bytes, the rest untouched)", want, enc, base.name)
			return
		}
		for _, r := range enc {
			if ms(r) && r != '%' {
				ctx.Violate("a code point of the set is left unencoded", "none", string(r), base.name)
			}
		}
		if !pctInSet && enc2 != enc {
			ctx.Violate("percent-encoding is not idempotent", enc, enc2, base.name)
		}
		if pctInSet {
			if dec != sp {
				ctx.Violate("decode does not invert encode although '%' is in the set", sp, dec, base.name)
			}
		} else if dec != decOrig {
			ctx.Violate("decode(encode(s)) differs from decode(s)", decOrig, dec, base.name)
		}
		// decoder vs the standard's byte-level percent-decode
		if wantDec := string(refmodel.PercentDecode([]byte(enc))); dec != wantDec {
			ctx.Violate("percent-decoding differs from the standard's", wantDec, dec, base.name)
		}
	}
}

func setProfile(s *url.PercentEncodeSet) string {
	b := make([]byte, 0, 0x100+8)
	for r := rune(0); r < 0x100; r++ {
		if s.RuneShouldBeEncoded(r) {
			b = append(b, '1')
		} else {
			b = append(b, '0')
		}
	}
	for _, r := range []rune{0x100, 0x7ff, 0xffff, 0x10000, 0x10ffff} {
		if s.RuneShouldBeEncoded(r) {
			b = append(b, '1')
		} else {
			b = append(b, '0')
		}
	}
	return string(b) + fmt.Sprint(url.VerifSetFingerprint(s))
}

func firstDiff(a, b string) string {
	for i := 0; i < len(a) && i < len(b); i++ {
		if a[i] != b[i] {
			return fmt.Sprintf("differs at probe %d", i)
		}
	}
	return "differs"
}

func isHexRune(r rune) bool {
	return (r >= '0' && r <= '9') || (r >= 'a' && r <= 'f') || (r >= 'A' && r <= 'F')
}
