package mon

import (
	"fmt"
	"math"
	"regexp"
	"runtime"
	"runtime/debug"
	"strconv"
	"strings"
	"syscall"
	"unsafe"

	"github.com/nlnwa/whatwg-url/url"

	"verif/core"
	"verif/obs"
)

// C20 — parsing and serialization cost grows at most linearly with input length
// (resource monitor: allocated bytes, hook-counted work, thread CPU time).
type c20 struct{}

func init() { core.Register(c20{}) }

func (c20) ID() string { return "C20" }

func (c20) Info() core.Info {
	return core.Info{
		Rule: "resource monitor: for each of 92 repetition families (prefix + fragment x n + suffix, one or two long components; as URL, as reference against a short and a long base, SearchParams workloads; ten families under the relaxing parser options) and " +
			"n in {2^10, 2^12, 2^14} (thorough adds 2^16, and 2^18 when 2^16 stayed under 64 MiB) the cost of Parse + Href + every getter + SearchParams()/String()/Sort() on the " +
			"result is measured as (1) runtime.MemStats.TotalAlloc delta with the GC off (deterministic), (2) parser main-loop steps + cursor moves counted by the hook (deterministic), " +
			"(3) thread CPU time (CLOCK_THREAD_CPUTIME_ID, goroutine locked to its thread, minimum of 5 repetitions). Verdict on the fitted exponent = least-squares slope of log(cost) over " +
			"log(n): (1) and (2) violate above 1.35 (linear ~1.0, n log n ~1.1, quadratic ~2.0); (3) only above 1.5 AND more than 50 ms at the largest n AND confirmed by a second " +
			"measurement round, otherwise a noisy CPU signal is recorded as inconclusive. Non-trivial: every (family, n) measurement; distinct by (family, n).",
		Assumptions: []string{"growth is measured on the listed families and sizes only", "wall-clock time is never used; CPU time only confirms"},
		MinDistinct: map[string]int{"quick": 100, "thorough": 150},
	}
}

func (c20) Plan(tier string) core.Plan { return core.Plan{Shards: 16, CPUSeconds: 1500} }

type family struct {
	name                 string
	prefix, frag, suffix string
	base                 string // "" = none; "LONG" = a long base built from the same n
	sp                   bool   // additionally exercise SearchParams
	relaxed              bool   // parse with the relaxing parser options (lax host, accept-invalid, single-percent, collapse)
	report               bool   // parse with validation-error reporting on
	setter               string // the text is the argument of this setter, on a reporting-mode URL whose ValidationErrors() were read before
}

var c20Families = []family{
	{name: "opaque-path x", prefix: "a:", frag: "x"},
	{name: "opaque-path space", prefix: "a:", frag: " ", suffix: "x"},
	{name: "scheme chars", prefix: "", frag: "a", suffix: ":x"},
	{name: "no-scheme restart", prefix: "", frag: "a", suffix: "/", base: "http://h/"},
	{name: "username u", prefix: "http://", frag: "u", suffix: "@h/"},
	{name: "username nonascii", prefix: "http://", frag: "é", suffix: "@h/"},
	{name: "password p", prefix: "http://u:", frag: "p", suffix: "@h/"},
	{name: "authority @", prefix: "http://", frag: "@", suffix: "h/"},
	{name: "authority :", prefix: "http://", frag: ":", suffix: "@h/"},
	{name: "authority no-at", prefix: "http://", frag: "a", suffix: ""},
	{name: "opaque host h", prefix: "a://", frag: "h", suffix: "/"},
	{name: "opaque host %41", prefix: "a://", frag: "%41", suffix: "/"},
	{name: "opaque host %", prefix: "a://", frag: "%", suffix: "/"},
	{name: "domain a", prefix: "http://", frag: "a", suffix: "/"},
	{name: "domain a.", prefix: "http://", frag: "a.", suffix: "/"},
	{name: "domain %41", prefix: "http://", frag: "%41", suffix: "/"},
	{name: "domain é", prefix: "http://", frag: "é", suffix: "/"},
	{name: "domain 1.", prefix: "http://", frag: "1.", suffix: "/"},
	{name: "domain digits", prefix: "http://", frag: "1", suffix: "/"},
	{name: "ipv6 pieces", prefix: "http://[", frag: "1:", suffix: "]/"},
	{name: "ipv6 zeros", prefix: "http://[::", frag: "0", suffix: "]/"},
	{name: "port digits", prefix: "http://h:", frag: "1", suffix: "/"},
	{name: "port zeros", prefix: "http://h:", frag: "0", suffix: "80/"},
	{name: "special slashes", prefix: "http:", frag: "/", suffix: "h/"},
	{name: "special backslashes", prefix: "http:", frag: "\\", suffix: "h/"},
	{name: "path /a", prefix: "http://h", frag: "/a"},
	{name: "path /", prefix: "http://h", frag: "/"},
	{name: "path backslash", prefix: "http://h", frag: "\\"},
	{name: "path /..", prefix: "http://h", frag: "/.."},
	{name: "path /a/..", prefix: "http://h", frag: "/a/.."},
	{name: "path /a/b/..", prefix: "http://h", frag: "/a/b/.."},
	{name: "path /a/b/c/../..", prefix: "http://h", frag: "/a/b/c/../.."},
	{name: "path deep then /x/..", prefix: "http://h/DEEP", frag: "/x/.."},
	{name: "path /a/./b/%2e%2e", prefix: "http://h", frag: "/a/./b/%2e%2E"},
	{name: "authority a@", prefix: "http://", frag: "a@", suffix: "h/"},
	{name: "authority a:b@", prefix: "http://", frag: "a:b@", suffix: "h/"},
	{name: "ref /x/.. vs long base", prefix: "", frag: "x/../", base: "LONG"},
	// two long components at once ({S} = n/2 repetitions of 'a'): work that is |A| x |B|
	{name: "long scheme + path", prefix: "{S}://h", frag: "/a"},
	{name: "long scheme + long segment", prefix: "{S}://h/", frag: "a"},
	{name: "long scheme + query", prefix: "{S}://h/?", frag: "a"},
	{name: "long scheme + fragment", prefix: "{S}://h/#", frag: "a"},
	{name: "long scheme + opaque path", prefix: "{S}:", frag: "x"},
	{name: "long scheme + host", prefix: "{S}://", frag: "h", suffix: "/"},
	{name: "long username + path", prefix: "http://{S}@h", frag: "/a"},
	{name: "long host + path", prefix: "http://{S}", frag: "/a"},
	{name: "long host + query", prefix: "http://{S}/?", frag: "a=b&", sp: true},
	{name: "long path + query", prefix: "http://h/{S}?", frag: "a"},
	{name: "long path + fragment", prefix: "http://h/{S}#", frag: "a"},
	{name: "long query + fragment", prefix: "http://h/?{S}#", frag: "a"},
	{name: "long scheme ref vs long base", prefix: "x", frag: "/a", base: "LONGSCHEME"},
	{name: "tabs between text", prefix: "http://h/", frag: "abcdefg\n"},
	{name: "tabs in host", prefix: "http://", frag: "a\t", suffix: "/"},
	// the same kinds of families under the relaxing parser options that the experimental profiles use
	{name: "relaxed: host %25", prefix: "http://", frag: "%25", suffix: "/", relaxed: true},
	{name: "relaxed: host %", prefix: "http://", frag: "%", suffix: "/", relaxed: true},
	{name: "relaxed: host invalid bytes", prefix: "http://", frag: "\xff", suffix: "/", relaxed: true},
	{name: "relaxed: host a<", prefix: "http://", frag: "a<", suffix: "/", relaxed: true},
	{name: "relaxed: opaque host %", prefix: "a://", frag: "%", suffix: "/", relaxed: true},
	{name: "relaxed: path %", prefix: "http://h/", frag: "%", relaxed: true},
	{name: "relaxed: path //", prefix: "http://h", frag: "//", relaxed: true},
	{name: "relaxed: path /a//", prefix: "http://h", frag: "/a//", relaxed: true},
	{name: "relaxed: query %", prefix: "http://h/?", frag: "%", sp: true, relaxed: true},
	{name: "relaxed: path invalid bytes", prefix: "http://h/", frag: "\xff/", relaxed: true},
	// multi-byte, astral, U+FFFD and invalid bytes in every component, under the default parser (byte offset <-> code point bookkeeping)
	{name: "domain invalid bytes", prefix: "http://", frag: "\xff", suffix: "/"},
	{name: "domain U+FFFD", prefix: "http://", frag: "\ufffd", suffix: "/"},
	{name: "domain astral", prefix: "http://", frag: "\U0001F308", suffix: "/"},
	{name: "domain a then invalid bytes", prefix: "http://a", frag: "\xff", suffix: "/"},
	{name: "opaque host invalid bytes", prefix: "a://", frag: "\xff", suffix: "/"},
	{name: "opaque host astral", prefix: "a://", frag: "\U0001F308", suffix: "/"},
	{name: "username invalid bytes", prefix: "http://", frag: "\xff", suffix: "@h/"},
	{name: "path invalid bytes", prefix: "http://h/", frag: "\xff"},
	{name: "path astral", prefix: "http://h/", frag: "\U0001F308"},
	{name: "opaque path invalid bytes", prefix: "a:", frag: "\xff"},
	{name: "query invalid bytes", prefix: "http://h/?", frag: "\xff", sp: true},
	{name: "query astral names", prefix: "http://h/?", frag: "\U0001F308=1&", sp: true},
	{name: "fragment invalid bytes", prefix: "http://h/#", frag: "\xff"},
	{name: "é then host", prefix: "http://", frag: "é", suffix: "@\xff\xff\xff\xff/"},
	// validation-error reporting on: inputs that raise one entry per code point
	{name: "report: path errors", prefix: "http://h/", frag: "\"", report: true},
	{name: "report: query errors", prefix: "http://h/?", frag: "% ", report: true},
	{name: "report: backslashes", prefix: "http://h", frag: "\\", report: true},
	{name: "report: credentials errors", prefix: "http://", frag: "^", suffix: "@h/", report: true},
	// the setters, on a reporting-mode URL whose recorded entries were read before (state kept between calls)
	{name: "setter search errors", frag: "\" ", setter: "search"},
	{name: "setter search pairs", frag: "a=b&", setter: "search"},
	{name: "setter hash errors", frag: "\"%", setter: "hash"},
	{name: "setter pathname segments", frag: "/a", setter: "pathname"},
	{name: "setter pathname errors", frag: "\\ ", setter: "pathname"},
	{name: "setter pathname dot segments", frag: "/a/..", setter: "pathname"},
	{name: "setter host", frag: "a.", setter: "host"},
	{name: "setter hostname invalid bytes", frag: "\xff", setter: "hostname"},
	{name: "setter username", frag: "é^", setter: "username"},
	{name: "setter password", frag: ":@", setter: "password"},
	{name: "setter port", frag: "1", setter: "port"},
	{name: "setter protocol", frag: "a", suffix: ":", setter: "protocol"},
	// the repeated fragment is itself a long token ({T} = 1 300 .. 5 000 bytes: beyond the growth steps
	// of a byte buffer): many long path segments, long parameter values, long labels
	{name: "path segments of 1300", prefix: "http://h", frag: "/{T1300}"},
	{name: "path segments of 1700", prefix: "http://h", frag: "/{T1700}"},
	{name: "path segments of 2500", prefix: "http://h", frag: "/{T2500}"},
	{name: "path segments of 5000", prefix: "http://h", frag: "/{T5000}"},
	{name: "query values of 2500", prefix: "http://h/?", frag: "k={T2500}&", sp: true},
	{name: "path segments of 1300 then ..", prefix: "http://h", frag: "/{T1300}/.."},
	{name: "query values of 1300", prefix: "http://h/?", frag: "k={T1300}&", sp: true},
	{name: "nonspecial segments of 1300", prefix: "a:", frag: "/{T1300}"},
	{name: "host labels of 60", prefix: "http://", frag: "{T60}.", suffix: "com/"},
	{name: "path /.", prefix: "http://h", frag: "/."},
	{name: "path /%2e", prefix: "http://h", frag: "/%2e"},
	{name: "path long segment", prefix: "http://h/", frag: "a"},
	{name: "path % signs", prefix: "http://h/", frag: "%"},
	{name: "path nonascii", prefix: "http://h/", frag: "é"},
	{name: "nonspecial path /a", prefix: "a:", frag: "/a"},
	{name: "nonspecial path //", prefix: "a:/.", frag: "/"},
	{name: "file path /a", prefix: "file://", frag: "/a"},
	{name: "file path /..", prefix: "file:///C:", frag: "/.."},
	{name: "query a", prefix: "http://h/?", frag: "a", sp: true},
	{name: "query a=b&", prefix: "http://h/?", frag: "a=b&", sp: true},
	{name: "query &", prefix: "http://h/?", frag: "&", sp: true},
	{name: "query %", prefix: "http://h/?", frag: "%", sp: true},
	{name: "query +", prefix: "http://h/?", frag: "+", sp: true},
	{name: "query =", prefix: "http://h/?", frag: "=", sp: true},
	{name: "query %41", prefix: "http://h/?", frag: "%41", sp: true},
	{name: "query distinct names", prefix: "http://h/?", frag: "", sp: true},
	{name: "fragment a", prefix: "http://h/#", frag: "a"},
	{name: "fragment nonascii", prefix: "http://h/#", frag: "é"},
	{name: "tabs", prefix: "http://h/", frag: "\t", suffix: "x"},
	{name: "leading spaces", prefix: "", frag: " ", suffix: "http://h/"},
	{name: "trailing spaces", prefix: "http://h/", frag: " "},
	{name: "ref path vs short base", prefix: "", frag: "a/", base: "http://h/x/y"},
	{name: "ref ../ vs short base", prefix: "", frag: "../", base: "http://h/x/y"},
	{name: "ref path vs long base", prefix: "", frag: "a/", base: "LONG"},
	{name: "short ref vs long base", prefix: "x", frag: "", base: "LONG"},
	{name: "short ../ ref vs long base", prefix: "../x", frag: "", base: "LONG"},
	{name: "query ref vs long base", prefix: "?q", frag: "", base: "LONG"},
	{name: "fragment ref vs long base", prefix: "#f", frag: "", base: "LONG"},
	{name: "file ref vs long file base", prefix: "x", frag: "", base: "LONGFILE"},
}

var longTokenRe = regexp.MustCompile(`\{T(\d+)\}`)

func (f family) build(n int) (input, base string) {
	if m := longTokenRe.FindStringSubmatch(f.frag); m != nil {
		k, _ := strconv.Atoi(m[1])
		f.frag = strings.Replace(f.frag, m[0], strings.Repeat("a", k), 1)
		n *= 64 // many repetitions of a long token: 64 KiB .. 1 MiB in quick (the measurement records the real length)
	}
	prefix := strings.Replace(f.prefix, "/DEEP", strings.Repeat("/d", n/4), 1)
	reps := n / max(1, len(f.frag))
	if strings.Contains(prefix, "{S}") {
		prefix = strings.Replace(prefix, "{S}", strings.Repeat("a", n/2), 1)
		reps /= 2
	}
	input = prefix + strings.Repeat(f.frag, reps) + f.suffix
	if f.name == "query distinct names" {
		var sb strings.Builder
		sb.WriteString(f.prefix)
		for i := 0; sb.Len() < n; i++ {
			fmt.Fprintf(&sb, "k%d=v%d&", (i*7919)%100003, i)
		}
		input = sb.String()
	}
	switch f.base {
	case "LONG":
		base = "http://h" + strings.Repeat("/a", n/2) + "?q#f"
	case "LONGSCHEME":
		base = strings.Repeat("a", n/2) + "://h/b/c?q#f"
	case "LONGFILE":
		base = "file:///C:" + strings.Repeat("/a", n/2)
	default:
		base = f.base
	}
	return
}

func threadCPU() int64 {
	var ts syscall.Timespec
	syscall.Syscall(syscall.SYS_CLOCK_GETTIME, 3 /* CLOCK_THREAD_CPUTIME_ID */, uintptr(unsafe.Pointer(&ts)), 0)
	return ts.Sec*1e9 + ts.Nsec
}

var c20sink int

var c20Relaxed = url.NewParser(url.WithLaxHostParsing(), url.WithAcceptInvalidCodepoints(), url.WithPercentEncodeSinglePercentSign(), url.WithCollapseConsecutiveSlashes())

var c20Reporting = url.NewParser(url.WithReportValidationErrors())

func c20op(f family, input, base string) {
	var u *url.Url
	var err error
	if f.setter != "" {
		u, err = c20Reporting.Parse("https:\\\\u:p@h.example:8080/p q?a=b#f")
		if err != nil || u == nil {
			return
		}
		c20sink += len(u.ValidationErrors())
		obs.ApplySetter(u, f.setter, input)
		s := obs.Take(u)
		c20sink += len(s.Href) + len(u.ValidationErrors())
		obs.ApplySetter(u, f.setter, "x")
		c20sink += len(u.Href(false))
		return
	}
	switch {
	case f.report && base != "":
		u, err = c20Reporting.ParseRef(base, input)
	case f.report:
		u, err = c20Reporting.Parse(input)
	case f.relaxed && base != "":
		u, err = c20Relaxed.ParseRef(base, input)
	case f.relaxed:
		u, err = c20Relaxed.Parse(input)
	case base != "":
		u, err = url.ParseRef(base, input)
	default:
		u, err = url.Parse(input)
	}
	if err != nil || u == nil {
		return
	}
	s := obs.Take(u)
	c20sink += len(s.Href) + len(s.Pathname) + len(u.ValidationErrors())
	sp := u.SearchParams()
	c20sink += len(sp.String())
	if f.sp {
		c20sink += len(sp.Get("zz")) + len(sp.GetAll("a"))
		sp.Sort()
		c20sink += len(u.Href(false))
	}
	c := u.Clone()
	c20sink += len(c.Href(false))
}

type measurement struct {
	n            int
	alloc, steps int64
	cpu          int64
}

func measure(f family, n int) measurement {
	input, base := f.build(n)
	m := measurement{n: max(1, len(input)+len(base))} // the abscissa is the real input length
	runtime.GC()
	old := debug.SetGCPercent(-1)
	var m0, m1 runtime.MemStats
	url.VerifReset(0)
	url.VerifEnabled = true
	runtime.ReadMemStats(&m0)
	c20op(f, input, base)
	runtime.ReadMemStats(&m1)
	url.VerifEnabled = false
	debug.SetGCPercent(old)
	m.alloc = int64(m1.TotalAlloc - m0.TotalAlloc)
	m.steps = url.VerifSteps + url.VerifCursorMoves
	m.cpu = math.MaxInt64
	reps := 5
	if m.alloc > 256<<20 {
		reps = 1
	}
	for i := 0; i < reps; i++ {
		runtime.GC()
		t0 := threadCPU()
		c20op(f, input, base)
		if d := threadCPU() - t0; d < m.cpu {
			m.cpu = d
		}
	}
	return m
}

func slope(xs []int, ys []int64) float64 {
	n := float64(len(xs))
	var sx, sy, sxx, sxy float64
	for i := range xs {
		x := math.Log(float64(xs[i]))
		y := math.Log(math.Max(1, float64(ys[i])))
		sx += x
		sy += y
		sxx += x * x
		sxy += x * y
	}
	return (n*sxy - sx*sy) / (n*sxx - sx*sx)
}

func (m c20) Run(ctx *core.Ctx) {
	for i, f := range c20Families {
		if i%ctx.NShards != ctx.Shard {
			continue
		}
		cs := &core.Case{Check: "family", Input: core.S(f.name), N: i}
		ctx.Begin(cs)
		m.Exec(ctx, cs)
	}
}

func (c20) Exec(ctx *core.Ctx, cs *core.Case) {
	if cs.N < 0 || cs.N >= len(c20Families) {
		return
	}
	f := c20Families[cs.N]
	runtime.LockOSThread()
	defer runtime.UnlockOSThread()
	sizes := []int{1 << 10, 1 << 12, 1 << 14}
	if ctx.Tier == "thorough" {
		sizes = append(sizes, 1<<16, 1<<18)
	}
	var ms []measurement
	var ns []int
	var allocs, steps, cpus []int64
	stopped := ""
	for _, n := range sizes {
		if n == 1<<18 && len(ms) > 0 && ms[len(ms)-1].alloc > 64<<20 {
			break
		}
		var mm measurement
		pan := func() (p any) {
			defer func() { p = recover() }()
			mm = measure(f, n)
			return nil
		}()
		if pan != nil {
			url.VerifEnabled = false
			ctx.Violate("panic while measuring", "", fmt.Sprint(pan), f.name)
			return
		}
		ms = append(ms, mm)
		ns = append(ns, mm.n) // real input length
		allocs = append(allocs, mm.alloc)
		steps = append(steps, mm.steps)
		cpus = append(cpus, mm.cpu)
		ctx.NontrivialKey(fmt.Sprintf("%s/%d", f.name, n))
		ctx.Count("measurements")
		if len(ms) >= 3 && (slope(ns, allocs) > 1.6 || mm.alloc > 1<<30) {
			stopped = fmt.Sprintf(" (stopped growing n at %d)", n)
			break
		}
	}
	if len(ms) < 3 {
		ctx.Inconclusive("fewer than 3 sizes measured for " + f.name)
		return
	}
	// Escalation: a CPU exponent that looks super-linear on sizes too small for the absolute guard below
	// (50 ms at the largest size) is followed to larger inputs, four times longer each, before anything is decided.
	for next := sizes[len(sizes)-1] * 4; stopped == "" && len(ms) >= 3 && next <= 1<<18 && slope(ns, cpus) > 1.5 &&
		ms[len(ms)-1].cpu > 5e6 && ms[len(ms)-1].cpu <= 50e6 && ms[len(ms)-1].alloc < 64<<20; next *= 4 {
		var mm measurement
		if pan := func() (p any) {
			defer func() { p = recover() }()
			mm = measure(f, next)
			return nil
		}(); pan != nil {
			url.VerifEnabled = false
			ctx.Violate("panic while measuring", "", fmt.Sprint(pan), f.name)
			return
		}
		ms = append(ms, mm)
		ns = append(ns, mm.n)
		allocs = append(allocs, mm.alloc)
		steps = append(steps, mm.steps)
		cpus = append(cpus, mm.cpu)
		ctx.NontrivialKey(fmt.Sprintf("%s/%d", f.name, next))
		ctx.Count("measurements")
		ctx.Count("cpu_escalations")
	}
	sa, ss, sc := slope(ns, allocs), slope(ns, steps), slope(ns, cpus)
	line := fmt.Sprintf("%-28s alloc=%.2f steps=%.2f cpu=%.2f  bytes/n@max=%.1f steps/n@max=%.2f cpu@max=%.2fms%s", f.name, sa, ss, sc,
		float64(ms[len(ms)-1].alloc)/float64(ms[len(ms)-1].n), float64(ms[len(ms)-1].steps)/float64(ms[len(ms)-1].n), float64(ms[len(ms)-1].cpu)/1e6, stopped)
	ctx.Res.Lists["growth_exponents"] = append(ctx.Res.Lists["growth_exponents"], line)
	if ctx.Replay {
		fmt.Println(line)
		for _, m := range ms {
			fmt.Printf("   n=%d alloc=%d steps=%d cpu=%dns\n", m.n, m.alloc, m.steps, m.cpu)
		}
	}
	detail := fmt.Sprint(ms)
	if sa > 1.35 {
		ctx.Violate("allocated bytes grow super-linearly with the input length", "exponent <= 1.35", fmt.Sprintf("%.2f", sa), f.name+" "+detail)
	}
	if ss > 1.35 {
		ctx.Violate("parser work (main-loop steps + cursor moves) grows super-linearly with the input length", "exponent <= 1.35", fmt.Sprintf("%.2f", ss), f.name+" "+detail)
	}
	if sc > 1.5 && ms[len(ms)-1].cpu > 50e6 {
		// confirm with a second round
		var cpus2 []int64
		for _, n := range ns {
			cpus2 = append(cpus2, measure(f, n).cpu)
		}
		if s2 := slope(ns, cpus2); s2 > 1.5 && cpus2[len(cpus2)-1] > 50e6 {
			ctx.Violate("CPU time grows super-linearly with the input length", "exponent <= 1.5", fmt.Sprintf("%.2f / %.2f", sc, s2), f.name+" "+detail)
		} else {
			ctx.Inconclusive(fmt.Sprintf("noisy CPU signal for %s: exponent %.2f then %.2f", f.name, sc, s2))
		}
	}
}
