package mon

import (
	"fmt"
	"math/rand/v2"
	"strings"

	"github.com/nlnwa/whatwg-url/url"

	"verif/core"
	"verif/gen"
	"verif/obs"
)

// C13 — bases are never modified and results/clones share no state.
type c13 struct{}

func init() { core.Register(c13{}) }

func (c13) ID() string { return "C13" }

func (c13) Info() core.Info {
	return core.Info{
		Rule: "two-sided isolation monitor with a control twin. 'resolve': base b and reference r give result x; 'clone': u and c = u.Clone() (u freshly parsed, already mutated by a " +
			"prefix history, with or without a previously fetched SearchParams()). A sequence of in-place operations (nine setters, SearchParams Append/Delete/Set/Sort/SortAbsolute/Iterate) " +
			"is applied to one side, then another sequence to the other side. After each phase every getter and the parameter list (String + GetAll of all names used) of the UNTOUCHED " +
			"side must equal its value before the phase, and the OPERATED side must equal a control - an independently constructed twin (fresh parse of the same strings, same operations) " +
			"that shares nothing by construction. Every phase ends with a shuffled epilogue of mutations touching every component that can be shared by reference; half of the cases use a reporting-mode parser, " +
			"where ValidationErrors() of the untouched side must not change either. Non-trivial: both values exist and at least one operation ran; distinct by (strings, histories, variant).",
		Assumptions: []string{"behavioural verdict only: sharing of immutable strings is not a violation", "default parser"},
		MinDistinct: map[string]int{"quick": 100000, "thorough": 1000000},
	}
}

func (c13) Plan(tier string) core.Plan { return core.Plan{Shards: 16} }

func (m c13) Run(ctx *core.Ctx) {
	r := ctx.Rng
	n := split(tierN(ctx.Tier, 300_000, 6_000_000), ctx.Shard, ctx.NShards)
	kinds := histKinds{setters: true, sp: true, extra: true}
	for i := int64(0); i < n; i++ {
		cs := &core.Case{N: r.IntN(16)}
		if i%2 == 0 {
			cs.Check = "resolve"
			cs.Base = core.S(gen.ParseableBase(r))
			if r.IntN(5) == 0 {
				cs.Base = core.S(gen.StartURL(r))
			}
			cs.HasBase = true
			cs.Input = core.S(gen.Reference(r))
		} else {
			cs.Check = "clone"
			in, base, has := startCase(r)
			cs.Input, cs.Base, cs.HasBase = core.S(in), core.S(base), has
		}
		// history layout: prefix | "--" | phase 1 (on the derived value) | "--" | phase 2 (on the source)
		for j := r.IntN(3); j > 0 && cs.Check == "clone"; j-- {
			cs.Ops = append(cs.Ops, genOp(r, kinds))
		}
		if cs.Check == "clone" && r.IntN(6) == 0 {
			// a parameter list just beyond a small/large cut-off exists before the clone is made
			for j := gen.Pick(r, gen.ThresholdSizes[:5]); j > 0; j-- {
				cs.Ops = append(cs.Ops, sOp("sp.append", gen.Pick(r, []string{"a", "b", "k"}), fmt.Sprint(j)))
			}
		}
		cs.Ops = append(cs.Ops, sOp("--"))
		for j := 1 + r.IntN(5); j > 0; j-- {
			cs.Ops = append(cs.Ops, genOp(r, kinds))
		}
		cs.Ops = append(cs.Ops, c13Epilogue(r)...)
		cs.Ops = append(cs.Ops, sOp("--"))
		for j := 1 + r.IntN(5); j > 0; j-- {
			cs.Ops = append(cs.Ops, genOp(r, kinds))
		}
		cs.Ops = append(cs.Ops, c13Epilogue(r)...)
		ctx.Begin(cs)
		m.Exec(ctx, cs)
	}
}

// c13Epilogue: a fixed tail of in-place mutations that touches every component that can be
// shared by reference (path object incl. the opaque-path space stripping, query and fragment
// pointers, host and port pointers, the parameter pairs), so that aliasing does not depend on
// the random history happening to hit the right field.
func c13Epilogue(r *rand.Rand) []core.Op {
	if r.IntN(3) == 0 {
		return nil
	}
	ops := []core.Op{sOp("hash", ""), sOp("search", ""), sOp("sp.set", "a", "zz"), sOp("sp.append", "b", "1"), sOp("sp.iterate"), sOp("sp.rewrite", "x", "n"), sOp("sp.sort"),
		sOp("pathname", "/zz/y"), sOp("port", "8123"), sOp("hostname", "zz.example"), sOp("username", "zu"), sOp("password", "zp"), sOp("hash", "zf")}
	r.Shuffle(len(ops), func(i, j int) { ops[i], ops[j] = ops[j], ops[i] })
	return ops[:3+r.IntN(len(ops)-2)]
}

var c13Reporting = url.NewParser(url.WithReportValidationErrors())

type fullSnap struct {
	s      obs.Snap
	params string
	verrs  string // ValidationErrors(), only compared on the untouched side (a clone does not carry them)
}

func takeFull(u *url.Url, names []string) fullSnap {
	f := fullSnap{s: obs.Take(u)}
	sp := u.SearchParams()
	var sb strings.Builder
	sb.WriteString(sp.String())
	for _, n := range names {
		fmt.Fprintf(&sb, "|%q=%q/%v", n, sp.GetAll(n), sp.Has(n))
	}
	f.params = sb.String()
	var eb strings.Builder
	for _, e := range u.ValidationErrors() {
		fmt.Fprintf(&eb, "%s|", e.Error())
	}
	f.verrs = eb.String()
	return f
}

func (f fullSnap) noErrs() fullSnap { f.verrs = ""; return f }

func diffFull(a, b fullSnap) string {
	d := obs.Diff(a.s, b.s)
	if a.params != b.params {
		d = append(d, fmt.Sprintf("search parameters: %q != %q", a.params, b.params))
	}
	if a.verrs != b.verrs {
		d = append(d, fmt.Sprintf("validation errors: %q != %q", a.verrs, b.verrs))
	}
	return strings.Join(d, "; ")
}

func splitPhases(ops []core.Op) [3][]core.Op {
	var ph [3][]core.Op
	k := 0
	for _, o := range ops {
		if o.Name == "--" {
			if k < 2 {
				k++
			}
			continue
		}
		ph[k] = append(ph[k], o)
	}
	return ph
}

func (c13) Exec(ctx *core.Ctx, cs *core.Case) {
	ph := splitPhases(cs.Ops)
	var names []string
	for _, o := range cs.Ops {
		if strings.HasPrefix(o.Name, "sp.") && len(o.Args) > 0 {
			names = append(names, o.Arg(0))
		}
	}
	names = append(names, "a", "b")
	input, base := string(cs.Input), string(cs.Base)
	prefetch := cs.N&1 == 1
	derivedFirst := cs.N&2 == 0
	var parser url.Parser // nil = package-level functions
	if cs.N&4 != 0 {
		parser = c13Reporting // ValidationErrors() is then part of what must not be shared
	}
	budget := len(input) + len(base) + 4096

	// build (source, derived) and an independent twin pair
	build := func() (src, der *url.Url, ok bool) {
		var pan *core.Panic
		if cs.Check == "resolve" {
			b, err, p := parseImpl(ctx, parser, base, "", false, false)
			if p != nil || err != nil || b == nil {
				return nil, nil, false
			}
			if prefetch {
				_ = b.SearchParams().String()
			}
			var x *url.Url
			pan = ctx.Call(budget, func() { x, err = b.Parse(input) })
			if pan != nil || err != nil || x == nil {
				return nil, nil, false
			}
			return b, x, true
		}
		u, err, p := parseImpl(ctx, parser, input, base, cs.HasBase && base != "", false)
		if p != nil || err != nil || u == nil {
			return nil, nil, false
		}
		for _, op := range ph[0] {
			if pan := ctx.Call(budget+opBytes(op), func() { applyOp(u, op) }); pan != nil {
				return nil, nil, false
			}
		}
		if prefetch {
			_ = u.SearchParams().String()
		}
		var c *url.Url
		if pan = ctx.Call(budget, func() { c = u.Clone() }); pan != nil || c == nil {
			ctx.Violate("Clone panics or returns nil", "a copy", pan.String(), "")
			return nil, nil, false
		}
		return u, c, true
	}
	src, der, ok := build()
	if !ok {
		ctx.Count("not_constructible")
		return
	}
	tsrc, tder, ok2 := build()
	if !ok2 {
		// the same library calls with the same arguments, made a second time, did not succeed again: the
		// library's answer depends on earlier calls.  That is C01's / C14's subject; this case cannot be judged here.
		ctx.Count("construction_not_repeatable")
		ctx.Inconclusive("the same construction did not succeed when repeated (results depend on earlier calls): " + cs.Brief())
		return
	}
	ctx.Nontrivial()
	ctx.Count("pairs:" + cs.Check)

	if cs.Check == "resolve" {
		// the resolution itself must not have changed anything observable about the base
		if fresh, err, p := parseImpl(ctx, parser, base, "", false, false); p == nil && err == nil && fresh != nil {
			if a, b := takeFull(fresh, names).noErrs(), takeFull(tsrc, names).noErrs(); a != b {
				ctx.Violate("resolving a reference changed the base", a.s.Href, b.s.Href, diffFull(a, b))
				return
			}
		}
	}
	if cs.Check == "clone" {
		// a clone must equal its original
		if a, b := takeFull(tsrc, names).noErrs(), takeFull(tder, names).noErrs(); a != b {
			ctx.Violate("a clone differs from its original", a.s.Href, b.s.Href, diffFull(a, b))
			return
		}
	}

	// late observation (N&8): the untouched side is not read at all until the phase is over, and is
	// then compared with a reference built the same way that nobody operated on - a copy that is
	// only made on first read (lazy clone) would otherwise be triggered, and hidden, by the monitor
	late := cs.N&8 != 0
	runLate := func(target, other *url.Url, ops []core.Op, what string, refOther func() *url.Url) bool {
		for _, op := range ops {
			if p := ctx.Call(budget+opBytes(op), func() { applyOp(target, op) }); p != nil {
				ctx.Count("op_panics(C02)")
				return false
			}
			ctx.Count("ops")
		}
		ref := refOther()
		if ref == nil {
			return false
		}
		if a, b := takeFull(ref, names).noErrs(), takeFull(other, names).noErrs(); a != b {
			ctx.Violate("operations on one value changed the other value, seen when the other value is first read afterwards ("+what+")", a.s.Href, b.s.Href, diffFull(a, b))
			return false
		}
		return true
	}
	if late {
		ctx.Count("late_observation_cases")
		if derivedFirst {
			// operate on the derived value; the source is read only afterwards
			runLate(der, src, append(append([]core.Op{}, ph[1]...), ph[2]...), "operating on the "+map[bool]string{true: "clone", false: "result of the resolution"}[cs.Check == "clone"],
				func() *url.Url {
					s2, _, ok := build()
					if !ok {
						return nil
					}
					return s2
				})
		} else {
			runLate(src, der, append(append([]core.Op{}, ph[2]...), ph[1]...), "operating on the "+map[bool]string{true: "original", false: "base"}[cs.Check == "clone"],
				func() *url.Url {
					_, d2, ok := build()
					if !ok {
						return nil
					}
					return d2
				})
		}
		return
	}
	// alt: a value that must BEHAVE like the derived one although it was obtained differently - for a
	// clone an independent original (built the same way, never cloned), for the result of a
	// resolution a fresh parse of its serialization.  State that a copy forgets to carry over
	// (a cached flag, a derived field) only shows in what later operations do.
	var alt *url.Url
	if cs.Check == "clone" {
		if o, _, ok := build(); ok {
			alt = o
		}
	} else if f, err, p := parseImpl(ctx, parser, der.Href(false), "", false, false); p == nil && err == nil && f != nil {
		if takeFull(f, names).noErrs() == takeFull(der, names).noErrs() {
			alt = f
		}
	}
	run := func(target, twin, other *url.Url, ops []core.Op, what string) bool {
		before := takeFull(other, names)
		for i, op := range ops {
			var p1, p2 *core.Panic
			p1 = ctx.Call(budget+opBytes(op), func() { applyOp(target, op) })
			p2 = ctx.Call(budget+opBytes(op), func() { applyOp(twin, op) })
			if target == der && alt != nil {
				if p3 := ctx.Call(budget+opBytes(op), func() { applyOp(alt, op) }); p3 != nil {
					alt = nil
				}
			}
			if p1 != nil || p2 != nil {
				ctx.Count("op_panics(C02)")
				return false
			}
			if target == der && alt != nil {
				ctx.Count("behaviour_comparisons")
				if a, b := takeFull(target, names).noErrs(), takeFull(alt, names).noErrs(); a != b {
					ctx.Violate("a derived value does not behave like an equal value obtained directly ("+what+")", b.s.Href, a.s.Href,
						fmt.Sprintf("step %d %s: %s", i, clipS(op.String(), 120), diffFull(b, a)))
					return false
				}
			}
			ctx.Count("ops")
			where := fmt.Sprintf("%s, step %d %s", what, i, clipS(op.String(), 120))
			if after := takeFull(other, names); after != before {
				ctx.Violate("an operation on one value changed the other value ("+what+")", before.s.Href, after.s.Href, where+": "+diffFull(before, after))
				return false
			}
			if a, b := takeFull(target, names).noErrs(), takeFull(twin, names).noErrs(); a != b {
				ctx.Violate("the operated-on value does not reflect the operations like an independent twin ("+what+")", b.s.Href, a.s.Href, where+": "+diffFull(b, a))
				return false
			}
		}
		return true
	}
	derName, srcName := "result of the resolution", "base"
	if cs.Check == "clone" {
		derName, srcName = "clone", "original"
	}
	if derivedFirst {
		if !run(der, tder, src, ph[1], "operating on the "+derName) {
			return
		}
		if cs.Check == "resolve" {
			// the SAME reference resolved against the same base value again, after the owner of the first result
			// has changed that result: the second result must be what a fresh base gives (a base that remembers
			// the value it handed out shares state with it)
			var again, want *url.Url
			var e1, e2 error
			fresh, err, p := parseImpl(ctx, parser, base, "", false, false)
			if p == nil && err == nil && fresh != nil {
				if prefetch {
					_ = fresh.SearchParams().String()
				}
				p1 := ctx.Call(budget, func() { again, e1 = src.Parse(input) })
				p2 := ctx.Call(budget, func() { want, e2 = fresh.Parse(input) })
				if p1 == nil && p2 == nil && e1 == nil && e2 == nil && again != nil && want != nil {
					ctx.Count("re_resolutions")
					if a, b := takeFull(want, names).noErrs(), takeFull(again, names).noErrs(); a != b {
						ctx.Violate("resolving the same reference again, after the first result was modified by its owner, gives a different result than a fresh base does", a.s.Href, b.s.Href, diffFull(a, b))
						return
					}
				}
			}
		}
		run(src, tsrc, der, ph[2], "operating on the "+srcName)
	} else {
		if !run(src, tsrc, der, ph[2], "operating on the "+srcName) {
			return
		}
		run(der, tder, src, ph[1], "operating on the "+derName)
	}
}
