package mon

import (
	"fmt"
	"math/rand/v2"
	"runtime"
	"sort"
	"strings"
	"sync"
	"time"

	"github.com/nlnwa/whatwg-url/canonicalizer"
	"github.com/nlnwa/whatwg-url/errors"
	"github.com/nlnwa/whatwg-url/url"

	"verif/core"
	"verif/gen"
	"verif/obs"
)

// C14 — parsers, profiles and read-only URL values are safe for concurrent use.
// Runs only in the -race build; the counting hooks stay disabled (they are plain variables
// by design), only the fingerprint hooks are used, at quiescent points.
type c14 struct{}

func init() { core.Register(c14{}) }

func (c14) ID() string { return "C14" }

func (c14) Info() core.Info {
	return core.Info{
		Rule: "race detector + result equality + fingerprints. Each round creates FRESH shared objects (a base URL parsed just now, a url.NewParser with a sampled option list, plus the " +
			"package-level functions and the four predefined profiles), computes the expected result of every planned call sequentially on an independent twin set of objects, then " +
			"releases K in {2,4,16} goroutines from a barrier, each doing 30-120 calls from {url.Parse, url.ParseRef, parser.Parse, parser.ParseRef, base.Parse(ref), all getters of the " +
			"shared base, String, ValidationErrors, base.Clone()+getters, profile.Parse} with random runtime.Gosched() in between; GOMAXPROCS in {2,8,16}. Monitors: (1) Go race detector " +
			"(halt_on_error=0, reports counted from the log, de-duplicated by the /repo functions of the two stacks); (2) every concurrent result equals the sequential one; (3) the " +
			"table/parser/profile fingerprints and the snapshot of the shared base are unchanged after the join. The evidence lists which pairs of operations on the same shared " +
			"object were actually in flight at the same time (from goroutine-local logs stamped with the monotonic clock; evidence only, never a verdict). " +
			"Each of the 64 (quick) / 256 (thorough) short-lived worker processes takes the fingerprints BEFORE it uses the library and starts with two cold rounds: all goroutines run the same " +
			"call list (incl. inputs that reach lazily initialised paths) with no sequential use before, expected results computed after the join - first-use races and lazily written package-level state show there. " +
			"Non-trivial: a round in which at least two goroutines ran calls on shared objects; distinct by round seed.",
		Assumptions: []string{"concurrent SearchParams() on a shared URL and any concurrent mutation are outside the property",
			"absence of race reports is relative to the paths the rounds executed and to the race detector's shadow window"},
		MinDistinct: map[string]int{"quick": 1000, "thorough": 20000},
		RaceBuild:   true,
	}
}

// Many short-lived worker processes: lazily initialised package-level state can only race on
// its FIRST use in a process, so every process starts with "cold" rounds (see Exec).
func (c14) Plan(tier string) core.Plan {
	// CaseCPU: a soak round is ONE case that keeps sixteen goroutines busy under the race detector
	if tier == "thorough" {
		return core.Plan{Shards: 256, CPUSeconds: 6000, CaseCPU: 1500}
	}
	return core.Plan{Shards: 64, CPUSeconds: 3000, CaseCPU: 1500}
}

// c14Baseline: fingerprints of every package-level table and predefined profile, taken when
// the worker process has not used the library yet.
var c14Baseline struct {
	taken    bool
	table    uint64
	profiles [4]uint64
}

func c14TakeBaseline() {
	if c14Baseline.taken {
		return
	}
	c14Baseline.taken = true
	c14Baseline.table = url.VerifTableFingerprint()
	for i, p := range c14profiles {
		c14Baseline.profiles[i], _ = canonicalizer.VerifProfileFingerprint(p)
	}
}

func (m c14) Run(ctx *core.Ctx) {
	c14TakeBaseline()
	n := split(tierN(ctx.Tier, 3_200, 64_000), ctx.Shard, ctx.NShards)
	for i := int64(0); i < n; i++ {
		cs := &core.Case{Check: "round", N: int(ctx.Rng.Uint32() >> 1)}
		if i < 2 {
			cs.Check = "cold-round" // the first use of the library in this process happens concurrently
		}
		ctx.Begin(cs)
		m.Exec(ctx, cs)
	}
	if ctx.Shard%16 == 5 {
		// long-run state: one soak per sixteen processes on the long-lived shared objects
		cs := &core.Case{Check: "soak-round", N: int(ctx.Rng.Uint32() >> 1)}
		ctx.Begin(cs)
		m.Exec(ctx, cs)
	}
}

// c14SoakParser lives as long as the process, like the package-level default parser and the profiles.
var c14SoakParser = url.NewParser()

// soakRound: tens of thousands of DISTINCT hosts, paths and queries go through the long-lived
// shared objects (package-level functions, one parser value, one profile) from 16 goroutines,
// first each name once (filling whatever bounded memo, generation or pool the library keeps and
// pushing it over its limits: 256, 1 024, 4 096, 10 000 ... entries), then the early names again
// from all goroutines at once (the eviction / carry-over / refill paths run concurrently).  The
// race detector watches; a sample of the results is compared with the same call made alone.
func (c14) soakRound(ctx *core.Ctx, cs *core.Case) {
	c14TakeBaseline()
	old := runtime.GOMAXPROCS(16)
	defer runtime.GOMAXPROCS(old)
	N := 24_000 // 15 000 of them internationalized names: beyond memo limits of 4 096, 8 192, 10 000 entries
	if ctx.Tier == "thorough" {
		N = 120_000
	}
	const K = 16
	name := func(i int) string {
		switch i % 8 {
		case 0, 1, 2:
			return fmt.Sprintf("http://h\u00e9%d.example/p%d?q=%d", i, i%97, i)
		case 3, 4:
			return fmt.Sprintf("https://www%d.b\u00fccher.example:8443/%d/x", i, i)
		case 5:
			return fmt.Sprintf("http://[2001:db8::%x:%x]/a?b=%d", i>>16, i&0xffff, i)
		default:
			return fmt.Sprintf("http://Host%d.Example.COM/a/../b%d", i, i)
		}
	}
	call := func(obj, i int) string {
		in := name(i)
		switch obj {
		case 0:
			return c14result(url.Parse(in))
		case 1:
			return c14result(c14SoakParser.Parse(in))
		case 2:
			return c14result(canonicalizer.GoogleSafeBrowsing.Parse(in))
		default:
			// distinct, page-length base strings in flight at the same time; the reference is path-relative,
			// so the result shows which base it was resolved against
			res := c14result(url.ParseRef("http://base"+fmt.Sprint(i%5000)+".example/a/rather/long/directory/path/index.html?session="+fmt.Sprint(i%5000), fmt.Sprintf("rel%d/x?y=%d", i, i)))
			if !strings.HasPrefix(res, "http://base"+fmt.Sprint(i%5000)+".example/a/rather/long/directory/path/rel") {
				return "RESOLVED AGAINST ANOTHER BASE: " + res
			}
			return res
		}
	}
	// victims: values obtained BEFORE the soak (and results resolved against them) must still say
	// the same afterwards - a bounded table that hands out pointers into itself rewrites live
	// values when it evicts
	var victims []*url.Url
	var victimSnaps []obs.Snap
	for v := 0; v < 40; v++ {
		in := fmt.Sprintf("http://victim%d.example:8%03d/dir/page?x=%d#f", v, v, v)
		for obj, parse := range []func(string) (*url.Url, error){url.Parse, c14SoakParser.Parse, canonicalizer.GoogleSafeBrowsing.Parse} {
			if u, err := parse(in); err == nil && u != nil {
				victims = append(victims, u)
				if obj < 2 {
					if r, err := u.Parse("//other" + fmt.Sprint(v) + ".example/q"); err == nil && r != nil {
						victims = append(victims, r, u.Clone())
					}
				}
			}
		}
	}
	for _, u := range victims {
		victimSnaps = append(victimSnaps, obs.Take(u))
	}
	type sample struct {
		obj, i int
		res    string
	}
	samples := make([][]sample, K)
	var wg sync.WaitGroup
	gate := make(chan struct{})
	for g := 0; g < K; g++ {
		wg.Add(1)
		go func(g int) {
			defer wg.Done()
			defer func() {
				if r := recover(); r != nil {
					samples[g] = append(samples[g], sample{-1, g, fmt.Sprint("PANIC:", r)})
				}
			}()
			<-gate
			rg := rand.New(rand.NewPCG(uint64(cs.N), uint64(g)))
			// phase A: every name once, partitioned over the goroutines
			for i := g; i < N; i += K {
				for obj := 0; obj < 4; obj++ {
					res := call(obj, i)
					if i%37 == 0 || strings.HasPrefix(res, "RESOLVED AGAINST") {
						samples[g] = append(samples[g], sample{obj, i, res})
					}
				}
			}
			// phase B: the early names again, from everybody at once
			for k := 0; k < N/4; k++ {
				i := rg.IntN(N * 5 / 6)
				obj := rg.IntN(4)
				res := call(obj, i)
				if k%23 == 0 || strings.HasPrefix(res, "RESOLVED AGAINST") {
					samples[g] = append(samples[g], sample{obj, i, res})
				}
			}
			// phase C: link extraction - every goroutine resolves a run of references against ITS OWN
			// page-length base string (the pattern a "last base" memo is made for), all at once
			own := fmt.Sprintf("https://site-%d.example.com/section/%d/a/rather/long/article-name.html?page=%d", g, g, g)
			prefix := fmt.Sprintf("https://site-%d.example.com/section/%d/a/rather/long/", g, g)
			for k := 0; k < N/8; k++ {
				ref := fmt.Sprintf("img/%d.png?v=%d", k, g)
				var u *url.Url
				var err error
				switch k % 3 {
				case 0:
					u, err = url.ParseRef(own, ref)
				case 1:
					u, err = c14SoakParser.ParseRef(own, ref)
				default:
					u, err = canonicalizer.WhatWg.ParseRef(own, ref)
				}
				if res := c14result(u, err); !strings.HasPrefix(res, prefix+"img/") {
					samples[g] = append(samples[g], sample{-2, g, fmt.Sprintf("ParseRef(%q, %q) = %s", own, ref, res)})
					break
				}
			}
		}(g)
	}
	close(gate)
	wg.Wait()
	ctx.Nontrivial()
	ctx.Count("soak_rounds")
	ctx.Add("soak_distinct_names", int64(N))
	ctx.Add("concurrent_calls", int64(K*(N/K*4+N/4)))
	for g := range samples {
		for _, sm := range samples[g] {
			if sm.obj == -2 {
				ctx.Violate("a concurrent resolution was made against another goroutine's base", "resolved against its own base", sm.res, fmt.Sprintf("soak round, goroutine %d", sm.i))
				return
			}
			if sm.obj < 0 {
				ctx.Violate("a concurrent call panicked", "returns", sm.res, fmt.Sprintf("soak round, goroutine %d", sm.i))
				return
			}
			if want := call(sm.obj, sm.i); want != sm.res {
				ctx.Violate("a concurrent call returned something else than the same call run alone", want, sm.res,
					fmt.Sprintf("soak round (%d distinct names through the long-lived shared objects), object %d, input %q", N, sm.obj, name(sm.i)))
				return
			}
		}
	}
	for k, u := range victims {
		if after := obs.Take(u); after != victimSnaps[k] {
			ctx.Violate("a URL value obtained before heavy use of the same parser says something else afterwards", victimSnaps[k].Href, after.Href,
				fmt.Sprintf("soak round (%d distinct names): %s", N, strings.Join(obs.Diff(victimSnaps[k], after), "; ")))
			return
		}
	}
	ctx.Add("soak_victims_unchanged", int64(len(victims)))
	c14CheckBaseline(ctx, "soak round")
}

type c14call struct {
	kind string
	a, b string
	prof int
}

type c14objs struct {
	base   *url.Url
	parser url.Parser
}

func c14result(u *url.Url, err error) string {
	if err != nil || u == nil {
		return "ERR:" + string(errors.Type(err))
	}
	return u.Href(false)
}

var c14profiles = []url.Parser{canonicalizer.WhatWg, canonicalizer.WhatWgSortQuery, canonicalizer.GoogleSafeBrowsing, canonicalizer.Semantic}

func (c *c14call) run(o *c14objs, baseStr string) (res string) {
	defer func() {
		if r := recover(); r != nil {
			res = fmt.Sprint("PANIC:", r)
		}
	}()
	switch c.kind {
	case "url.Parse":
		return c14result(url.Parse(c.a))
	case "url.ParseRef":
		return c14result(url.ParseRef(baseStr, c.a))
	case "parser.Parse":
		return c14result(o.parser.Parse(c.a))
	case "parser.ParseRef":
		return c14result(o.parser.ParseRef(baseStr, c.a))
	case "base.Parse":
		return c14result(o.base.Parse(c.a))
	case "base.ParseMutate":
		// the result of a resolution is owned by this goroutine and may be mutated freely; the
		// shared base must not notice (no state shared between base and result)
		r, err := o.base.Parse(c.a)
		if err != nil || r == nil {
			return "ERR:" + string(errors.Type(err))
		}
		r.SetHash("")
		r.SetSearch("")
		r.SearchParams().Append("z", "1")
		r.SetPathname("/zz")
		r.SetHash("x y\"") // values that make a reporting-mode URL record validation entries
		cl := o.base.Clone()
		cl.SetHash("")
		cl.SetSearch("q=a b\"")
		cl.SetHost("zz.example")
		cl.SetPathname("/p q")
		return r.Href(false) + "|" + cl.Href(false) + "|" + fmt.Sprint(len(r.ValidationErrors()), len(cl.ValidationErrors()))
	case "base.getters":
		s := obs.Take(o.base)
		return s.Href + "|" + s.Host + "|" + s.Pathname + "|" + s.Search + "|" + s.Hash + fmt.Sprint(s.DecodedPort, s.IPv4, s.IPv6, s.Opaque, s.Special)
	case "base.String":
		return o.base.String()
	case "base.ValidationErrors":
		return fmt.Sprint(len(o.base.ValidationErrors()))
	case "base.Clone":
		cl := o.base.Clone()
		return cl.Href(false) + "|" + cl.Search()
	case "parser.Encode":
		return o.parser.PercentEncodeString(c.a, c14sets[c.prof%len(c14sets)])
	case "parser.Decode":
		if d, ok := o.parser.(interface{ DecodePercentEncoded(string) string }); ok {
			return d.DecodePercentEncoded(c.a)
		}
		return "n/a"
	case "parser.ToASCII":
		if d, ok := o.parser.(interface {
			ToASCII(string, bool) (string, error)
		}); ok {
			a, err := d.ToASCII(c.a, c.prof%2 == 0)
			return fmt.Sprint(a, "|", err != nil)
		}
		return "n/a"
	case "profile.Parse":
		return c14result(c14profiles[c.prof].Parse(c.a))
	case "profile.ParseRef":
		return c14result(c14profiles[c.prof].ParseRef(baseStr, c.a))
	}
	return "?"
}

// the codec methods of a shared Parser value are used with the package-level named sets
var c14sets = []*url.PercentEncodeSet{url.C0PercentEncodeSet, url.FragmentPercentEncodeSet, url.QueryPercentEncodeSet, url.SpecialQueryPercentEncodeSet,
	url.PathPercentEncodeSet, url.UserInfoPercentEncodeSet}

var c14kinds = []string{"parser.Encode", "parser.Decode", "parser.ToASCII", "url.Parse", "url.ParseRef", "parser.Parse", "parser.ParseRef", "base.Parse", "base.Parse", "base.ParseMutate", "base.ParseMutate", "base.getters", "base.String",
	"base.ValidationErrors", "base.Clone", "base.Clone", "profile.Parse", "profile.ParseRef"}

// sharedObject names the shared object an operation touches (overlap evidence).
func sharedObject(kind string) string {
	switch kind {
	case "base.Parse", "base.ParseMutate", "base.getters", "base.String", "base.ValidationErrors", "base.Clone":
		return "base"
	case "parser.Parse", "parser.ParseRef", "parser.Encode", "parser.Decode", "parser.ToASCII":
		return "parser"
	case "profile.Parse", "profile.ParseRef":
		return "profile"
	}
	return "package"
}

type c14log struct {
	kind       string
	start, end time.Duration
}

// coldRound: all goroutines run the SAME call list on the package functions, a fresh parser
// and the four profiles, without any sequential use of those objects before; the expected
// results are computed after the join.  This is where first-use (lazy initialisation) races
// on package-level tables, profiles and parser values become visible.
func (c14) coldRound(ctx *core.Ctx, cs *core.Case) {
	c14TakeBaseline()
	r := rand.New(rand.NewPCG(uint64(cs.N), 0xC0FD))
	K := []int{4, 8, 16}[r.IntN(3)]
	old := runtime.GOMAXPROCS(16)
	defer runtime.GOMAXPROCS(old)
	cfg := randomConfig(r)
	for len(cfg) == 1 && len(cfg[0]) > 8 && cfg[0][:8] == "profile:" {
		cfg = randomConfig(r)
	}
	baseStr := gen.ParseableBase(r)
	shared := &c14objs{parser: buildParser(cfg)}
	n := 40 + r.IntN(60)
	plan := make([]c14call, n)
	lazyInputs := []string{"http://h/%", "http://h/%zz?%#%", "http://ex%ample.com/", "http://bücher.example/%", "http://a%25b/", "http://h/a%2", "//h/%", "http://h/?a=%&b", "a:%", "http://münchen.example/ü?ü#ü",
		"http://1.2.3.4/", "http://0x7f.1/x", "http://[::1]/", "http://[1:0:0:2::3]:81/", "file:///C|/x", "http://h:80/", "http://h/?a=1&b=2", "a://%41/", "http://xn--nxasmq6b/", "http://a\u00adb/", "//1.2.3.4/x", "?a=b&c", "#f", "../x",
		"http://ex%41mple.COM/", "http://a\xffb%ff.example/", "http://%ff\x7f/", "http://a b%ff/", "http://h/?a=%41&%42=c", "http://[::ffff:1.2.3.4]/", "http://h/%2e%2E/x"}
	for i := range plan {
		c := c14call{kind: gen.Pick(r, []string{"url.Parse", "url.ParseRef", "parser.Parse", "parser.ParseRef", "profile.Parse", "profile.Parse", "profile.ParseRef", "parser.Encode", "parser.Decode", "parser.ToASCII"}), prof: r.IntN(4)}
		switch {
		case i < 8 || r.IntN(4) == 0:
			c.a = gen.Pick(r, lazyInputs)
		case c.kind == "parser.ToASCII":
			c.a = gen.Pick(r, []string{"ex\u00e4mple.COM", "xn--nxasmq6b", "a\u00adb", "a\u2260b", "EXAMPLE.com", "\u0130.example", "a..b", "xn--", "b\u00fccher.example"})
		case c.kind == "url.Parse" || c.kind == "parser.Parse" || c.kind == "profile.Parse":
			c.a = gen.Input(r)
		default:
			c.a = gen.Reference(r)
		}
		plan[i] = c
	}
	results := make([][]string, K)
	var wg sync.WaitGroup
	gate := make(chan struct{})
	for g := 0; g < K; g++ {
		results[g] = make([]string, n)
		wg.Add(1)
		go func(g int) {
			defer wg.Done()
			<-gate
			for i := range plan {
				results[g][i] = plan[i].run(shared, baseStr)
			}
		}(g)
	}
	close(gate)
	wg.Wait()
	ctx.Nontrivial()
	ctx.Count("cold_rounds")
	ctx.Add("goroutines", int64(K))
	ctx.Add("concurrent_calls", int64(K*n))
	for i := range plan {
		want := plan[i].run(shared, baseStr) // alone, after the join
		for g := 0; g < K; g++ {
			if results[g][i] != want {
				ctx.Violate("a concurrent call returned something else than the same call run alone", want, results[g][i],
					fmt.Sprintf("cold round, goroutine %d call %d %s(%q) base %q config %v", g, i, plan[i].kind, plan[i].a, baseStr, cfg))
				return
			}
		}
	}
	c14CheckBaseline(ctx, "cold round")
}

func c14CheckBaseline(ctx *core.Ctx, where string) {
	if fp := url.VerifTableFingerprint(); fp != c14Baseline.table {
		ctx.Violate("a package-level table was modified after initialisation", c14Baseline.table, fp, where+" (fingerprint taken before the process used the library)")
		c14Baseline.table = fp
	}
	for i, p := range c14profiles {
		if fp, _ := canonicalizer.VerifProfileFingerprint(p); fp != c14Baseline.profiles[i] {
			ctx.Violate("a predefined profile (or a table it points to) was modified after initialisation", c14Baseline.profiles[i], fp, where+": "+profileNames[i])
			c14Baseline.profiles[i] = fp
		}
	}
}

func (m c14) Exec(ctx *core.Ctx, cs *core.Case) {
	if cs.Check == "cold-round" {
		m.coldRound(ctx, cs)
		return
	}
	if cs.Check == "soak-round" {
		m.soakRound(ctx, cs)
		return
	}
	c14TakeBaseline()
	r := rand.New(rand.NewPCG(uint64(cs.N), 0xC14))
	K := []int{2, 4, 16}[r.IntN(3)]
	procs := []int{2, 8, 16}[r.IntN(3)]
	old := runtime.GOMAXPROCS(procs)
	defer runtime.GOMAXPROCS(old)

	// fresh shared objects and an independent twin
	baseStr := gen.ParseableBase(r)
	if r.IntN(4) == 0 {
		baseStr = gen.Pick(r, []string{"http://h/a/b?x=1&y=2#f", "http://1.2.3.4:81/p?q", "file:///C:/a/b?q", "a://h/p?a=b", "http://[::1]/?a=1%2B1", "sc:opaque path  #frag", "a:p  ", "data:text/plain,x  ?q", "http://h/?", "file:///a/b",
			// one to seven recorded validation entries (a slice with spare capacity behind its length)
			"http://h/ x", "http://h/  x", "http://h/   x", "http://h/    x", "http://h/     x", "http://h/      x", "http://h/       x?q= #f "})
	}
	cfg := randomConfig(r)
	for len(cfg) == 1 && len(cfg[0]) > 8 && cfg[0][:8] == "profile:" {
		cfg = randomConfig(r)
	}
	if r.IntN(4) == 0 && !hasOpt(cfg, "report") {
		cfg = append(cfg, "report") // recorded validation entries are state a clone or result could share
	}
	mk := func() (*c14objs, bool) {
		p := buildParser(cfg)
		b, err := p.Parse(baseStr)
		if err != nil || b == nil {
			b, err = url.Parse(baseStr)
			if err != nil || b == nil {
				return nil, false
			}
		}
		return &c14objs{base: b, parser: p}, true
	}
	shared, ok := mk()
	twin, ok2 := mk()
	if !ok || !ok2 {
		ctx.Count("base_rejected")
		return
	}
	// plans
	plans := make([][]c14call, K)
	for g := range plans {
		n := 30 + r.IntN(91)
		plans[g] = make([]c14call, n)
		for i := range plans[g] {
			c := c14call{kind: gen.Pick(r, c14kinds), prof: r.IntN(4)}
			if c.kind == "url.Parse" || c.kind == "parser.Parse" || c.kind == "profile.Parse" {
				c.a = gen.Input(r)
			} else {
				c.a = gen.Reference(r)
			}
			if c.kind == "parser.ToASCII" {
				c.a = gen.Pick(r, []string{"ex\u00e4mple.COM", "xn--nxasmq6b", "a\u00adb", "a\u2260b", "EXAMPLE.com", "\u0130.example", "a..b", "xn--", "b\u00fccher.example"})
			}
			if c.kind == "base.ParseMutate" && r.IntN(2) == 0 {
				c.a = gen.Pick(r, []string{"#f", "", "?q", "#", "x", "../y", "//h2/p"})
			}
			plans[g][i] = c
		}
	}
	// expected: sequentially, on the twin
	expected := make([][]string, K)
	for g := range plans {
		expected[g] = make([]string, len(plans[g]))
		for i := range plans[g] {
			expected[g][i] = plans[g][i].run(twin, baseStr)
		}
	}
	twinSnap := obs.Take(twin.base)
	fpTable := url.VerifTableFingerprint()
	fpParser, _ := url.VerifParserFingerprint(shared.parser)
	if fp, ok := canonicalizer.VerifProfileFingerprint(shared.parser); ok {
		fpParser = fp
	}
	var fpProfiles [4]uint64
	for i, p := range c14profiles {
		fpProfiles[i], _ = canonicalizer.VerifProfileFingerprint(p)
	}

	// concurrent phase
	results := make([][]string, K)
	logs := make([][]c14log, K)
	gosched := make([][]bool, K)
	for g := range plans {
		results[g] = make([]string, len(plans[g]))
		logs[g] = make([]c14log, len(plans[g]))
		gosched[g] = make([]bool, len(plans[g]))
		for i := range gosched[g] {
			gosched[g][i] = r.IntN(3) == 0
		}
	}
	var wg sync.WaitGroup
	startGate := make(chan struct{})
	t0 := time.Now()
	for g := 0; g < K; g++ {
		wg.Add(1)
		go func(g int) {
			defer wg.Done()
			<-startGate
			for i := range plans[g] {
				s := time.Since(t0)
				results[g][i] = plans[g][i].run(shared, baseStr)
				logs[g][i] = c14log{plans[g][i].kind, s, time.Since(t0)}
				if gosched[g][i] {
					runtime.Gosched()
				}
			}
		}(g)
	}
	close(startGate)
	wg.Wait()

	ctx.Nontrivial()
	ctx.Count("rounds")
	ctx.Add("goroutines", int64(K))
	calls := 0
	for g := range plans {
		calls += len(plans[g])
		for i := range plans[g] {
			ctx.Count("call:" + plans[g][i].kind)
			if results[g][i] != expected[g][i] {
				ctx.Violate("a concurrent call returned something else than the same call run alone", expected[g][i], results[g][i],
					fmt.Sprintf("goroutine %d call %d %s(%q) base %q config %v", g, i, plans[g][i].kind, plans[g][i].a, baseStr, cfg))
				return
			}
		}
	}
	ctx.Add("concurrent_calls", int64(calls))
	if s := obs.Take(shared.base); s != twinSnap {
		ctx.Violate("a shared read-only base URL changed during concurrent use", twinSnap.Href, s.Href, fmt.Sprint(obs.Diff(twinSnap, s)))
	}
	if url.VerifTableFingerprint() != fpTable {
		ctx.Violate("a package-level table was modified after initialisation", fpTable, url.VerifTableFingerprint(), "")
	}
	fpAfter, _ := url.VerifParserFingerprint(shared.parser)
	if fp, ok := canonicalizer.VerifProfileFingerprint(shared.parser); ok {
		fpAfter = fp
	}
	if fpAfter != fpParser {
		ctx.Violate("the options of a shared parser changed during use", fpParser, fpAfter, fmt.Sprint(cfg))
	}
	for i, p := range c14profiles {
		if fp, _ := canonicalizer.VerifProfileFingerprint(p); fp != fpProfiles[i] {
			ctx.Violate("a predefined profile changed during use", fpProfiles[i], fp, profileNames[i])
		}
	}
	c14CheckBaseline(ctx, "round")
	// overlap evidence: pairs of operations on the same shared object in flight at the same time
	// (goroutine 0 against goroutine 1; the clock feeds evidence only)
	a, b := logs[0], logs[1]
	sort.Slice(b, func(i, j int) bool { return b[i].start < b[j].start })
	for _, x := range a {
		for _, y := range b {
			if y.start >= x.end {
				break
			}
			if y.end > x.start && sharedObject(x.kind) == sharedObject(y.kind) {
				k1, k2 := x.kind, y.kind
				if k2 < k1 {
					k1, k2 = k2, k1
				}
				ctx.Count("overlap:" + k1 + "||" + k2)
			}
		}
	}
}
