package mon

import (
	"fmt"
	"math/rand/v2"
	"runtime"
	"sort"
	"sync"
	"time"

	"github.com/nlnwa/whatwg-url/canonicalizer"
	"github.com/nlnwa/whatwg-url/errors"
	"github.com/nlnwa/whatwg-url/url"

	"verif/core"
	"verif/gen"
	"verif/obs"
)

// C14 — parsers, profiles and read-only URL values are safe for concurrent use.
// Runs only in the -race build; the counting hooks stay disabled (they are plain variables
// by design), only the fingerprint hooks are used, at quiescent points.
type c14 struct{}

func init() { core.Register(c14{}) }

func (c14) ID() string { return "C14" }

func (c14) Info() core.Info {
	return core.Info{
		Rule: "race detector + result equality + fingerprints. Each round creates FRESH shared objects (a base URL parsed just now, a url.NewParser with a sampled option list, plus the " +
			"package-level functions and the four predefined profiles), computes the expected result of every planned call sequentially on an independent twin set of objects, then " +
			"releases K in {2,4,16} goroutines from a barrier, each doing 30-120 calls from {url.Parse, url.ParseRef, parser.Parse, parser.ParseRef, base.Parse(ref), all getters of the " +
			"shared base, String, ValidationErrors, base.Clone()+getters, profile.Parse} with random runtime.Gosched() in between; GOMAXPROCS in {2,8,16}. Monitors: (1) Go race detector " +
			"(halt_on_error=0, reports counted from the log, de-duplicated by the /repo functions of the two stacks); (2) every concurrent result equals the sequential one; (3) the " +
			"table/parser/profile fingerprints and the snapshot of the shared base are unchanged after the join. The evidence lists which pairs of operations on the same shared " +
			"object were actually in flight at the same time (from goroutine-local logs stamped with the monotonic clock; evidence only, never a verdict). " +
			"Non-trivial: a round in which at least two goroutines ran calls on shared objects; distinct by round seed.",
		Assumptions: []string{"concurrent SearchParams() on a shared URL and any concurrent mutation are outside the property",
			"absence of race reports is relative to the paths the rounds executed and to the race detector's shadow window"},
		MinDistinct: map[string]int{"quick": 1000, "thorough": 20000},
		RaceBuild:   true,
	}
}

func (c14) Plan(tier string) core.Plan { return core.Plan{Shards: 16, CPUSeconds: 3000} }

func (m c14) Run(ctx *core.Ctx) {
	n := split(tierN(ctx.Tier, 3_200, 64_000), ctx.Shard, ctx.NShards)
	for i := int64(0); i < n; i++ {
		cs := &core.Case{Check: "round", N: int(ctx.Rng.Uint32() >> 1)}
		ctx.Begin(cs)
		m.Exec(ctx, cs)
	}
}

type c14call struct {
	kind string
	a, b string
	prof int
}

type c14objs struct {
	base   *url.Url
	parser url.Parser
}

func c14result(u *url.Url, err error) string {
	if err != nil || u == nil {
		return "ERR:" + string(errors.Type(err))
	}
	return u.Href(false)
}

var c14profiles = []url.Parser{canonicalizer.WhatWg, canonicalizer.WhatWgSortQuery, canonicalizer.GoogleSafeBrowsing, canonicalizer.Semantic}

func (c *c14call) run(o *c14objs, baseStr string) (res string) {
	defer func() {
		if r := recover(); r != nil {
			res = fmt.Sprint("PANIC:", r)
		}
	}()
	switch c.kind {
	case "url.Parse":
		return c14result(url.Parse(c.a))
	case "url.ParseRef":
		return c14result(url.ParseRef(baseStr, c.a))
	case "parser.Parse":
		return c14result(o.parser.Parse(c.a))
	case "parser.ParseRef":
		return c14result(o.parser.ParseRef(baseStr, c.a))
	case "base.Parse":
		return c14result(o.base.Parse(c.a))
	case "base.getters":
		s := obs.Take(o.base)
		return s.Href + "|" + s.Host + "|" + s.Pathname + "|" + s.Search + "|" + s.Hash + fmt.Sprint(s.DecodedPort, s.IPv4, s.IPv6, s.Opaque, s.Special)
	case "base.String":
		return o.base.String()
	case "base.ValidationErrors":
		return fmt.Sprint(len(o.base.ValidationErrors()))
	case "base.Clone":
		cl := o.base.Clone()
		return cl.Href(false) + "|" + cl.Search()
	case "profile.Parse":
		return c14result(c14profiles[c.prof].Parse(c.a))
	case "profile.ParseRef":
		return c14result(c14profiles[c.prof].ParseRef(baseStr, c.a))
	}
	return "?"
}

var c14kinds = []string{"url.Parse", "url.ParseRef", "parser.Parse", "parser.ParseRef", "base.Parse", "base.Parse", "base.Parse", "base.getters", "base.String",
	"base.ValidationErrors", "base.Clone", "base.Clone", "profile.Parse", "profile.ParseRef"}

// sharedObject names the shared object an operation touches (overlap evidence).
func sharedObject(kind string) string {
	switch kind {
	case "base.Parse", "base.getters", "base.String", "base.ValidationErrors", "base.Clone":
		return "base"
	case "parser.Parse", "parser.ParseRef":
		return "parser"
	case "profile.Parse", "profile.ParseRef":
		return "profile"
	}
	return "package"
}

type c14log struct {
	kind       string
	start, end time.Duration
}

func (c14) Exec(ctx *core.Ctx, cs *core.Case) {
	r := rand.New(rand.NewPCG(uint64(cs.N), 0xC14))
	K := []int{2, 4, 16}[r.IntN(3)]
	procs := []int{2, 8, 16}[r.IntN(3)]
	old := runtime.GOMAXPROCS(procs)
	defer runtime.GOMAXPROCS(old)

	// fresh shared objects and an independent twin
	baseStr := gen.ParseableBase(r)
	if r.IntN(4) == 0 {
		baseStr = gen.Pick(r, []string{"http://h/a/b?x=1&y=2#f", "http://1.2.3.4:81/p?q", "file:///C:/a/b?q", "a://h/p?a=b", "http://[::1]/?a=1%2B1"})
	}
	cfg := randomConfig(r)
	for len(cfg) == 1 && len(cfg[0]) > 8 && cfg[0][:8] == "profile:" {
		cfg = randomConfig(r)
	}
	mk := func() (*c14objs, bool) {
		p := buildParser(cfg)
		b, err := p.Parse(baseStr)
		if err != nil || b == nil {
			b, err = url.Parse(baseStr)
			if err != nil || b == nil {
				return nil, false
			}
		}
		return &c14objs{base: b, parser: p}, true
	}
	shared, ok := mk()
	twin, ok2 := mk()
	if !ok || !ok2 {
		ctx.Count("base_rejected")
		return
	}
	// plans
	plans := make([][]c14call, K)
	for g := range plans {
		n := 30 + r.IntN(91)
		plans[g] = make([]c14call, n)
		for i := range plans[g] {
			c := c14call{kind: gen.Pick(r, c14kinds), prof: r.IntN(4)}
			if c.kind == "url.Parse" || c.kind == "parser.Parse" || c.kind == "profile.Parse" {
				c.a = gen.Input(r)
			} else {
				c.a = gen.Reference(r)
			}
			plans[g][i] = c
		}
	}
	// expected: sequentially, on the twin
	expected := make([][]string, K)
	for g := range plans {
		expected[g] = make([]string, len(plans[g]))
		for i := range plans[g] {
			expected[g][i] = plans[g][i].run(twin, baseStr)
		}
	}
	twinSnap := obs.Take(twin.base)
	fpTable := url.VerifTableFingerprint()
	fpParser, _ := url.VerifParserFingerprint(shared.parser)
	if fp, ok := canonicalizer.VerifProfileFingerprint(shared.parser); ok {
		fpParser = fp
	}
	var fpProfiles [4]uint64
	for i, p := range c14profiles {
		fpProfiles[i], _ = canonicalizer.VerifProfileFingerprint(p)
	}

	// concurrent phase
	results := make([][]string, K)
	logs := make([][]c14log, K)
	gosched := make([][]bool, K)
	for g := range plans {
		results[g] = make([]string, len(plans[g]))
		logs[g] = make([]c14log, len(plans[g]))
		gosched[g] = make([]bool, len(plans[g]))
		for i := range gosched[g] {
			gosched[g][i] = r.IntN(3) == 0
		}
	}
	var wg sync.WaitGroup
	startGate := make(chan struct{})
	t0 := time.Now()
	for g := 0; g < K; g++ {
		wg.Add(1)
		go func(g int) {
			defer wg.Done()
			<-startGate
			for i := range plans[g] {
				s := time.Since(t0)
				results[g][i] = plans[g][i].run(shared, baseStr)
				logs[g][i] = c14log{plans[g][i].kind, s, time.Since(t0)}
				if gosched[g][i] {
					runtime.Gosched()
				}
			}
		}(g)
	}
	close(startGate)
	wg.Wait()

	ctx.Nontrivial()
	ctx.Count("rounds")
	ctx.Add("goroutines", int64(K))
	calls := 0
	for g := range plans {
		calls += len(plans[g])
		for i := range plans[g] {
			ctx.Count("call:" + plans[g][i].kind)
			if results[g][i] != expected[g][i] {
				ctx.Violate("a concurrent call returned something else than the same call run alone", expected[g][i], results[g][i],
					fmt.Sprintf("goroutine %d call %d %s(%q) base %q config %v", g, i, plans[g][i].kind, plans[g][i].a, baseStr, cfg))
				return
			}
		}
	}
	ctx.Add("concurrent_calls", int64(calls))
	if s := obs.Take(shared.base); s != twinSnap {
		ctx.Violate("a shared read-only base URL changed during concurrent use", twinSnap.Href, s.Href, fmt.Sprint(obs.Diff(twinSnap, s)))
	}
	if url.VerifTableFingerprint() != fpTable {
		ctx.Violate("a package-level table was modified after initialisation", fpTable, url.VerifTableFingerprint(), "")
	}
	fpAfter, _ := url.VerifParserFingerprint(shared.parser)
	if fp, ok := canonicalizer.VerifProfileFingerprint(shared.parser); ok {
		fpAfter = fp
	}
	if fpAfter != fpParser {
		ctx.Violate("the options of a shared parser changed during use", fpParser, fpAfter, fmt.Sprint(cfg))
	}
	for i, p := range c14profiles {
		if fp, _ := canonicalizer.VerifProfileFingerprint(p); fp != fpProfiles[i] {
			ctx.Violate("a predefined profile changed during use", fpProfiles[i], fp, profileNames[i])
		}
	}
	// overlap evidence: pairs of operations on the same shared object in flight at the same time
	// (goroutine 0 against goroutine 1; the clock feeds evidence only)
	a, b := logs[0], logs[1]
	sort.Slice(b, func(i, j int) bool { return b[i].start < b[j].start })
	for _, x := range a {
		for _, y := range b {
			if y.start >= x.end {
				break
			}
			if y.end > x.start && sharedObject(x.kind) == sharedObject(y.kind) {
				k1, k2 := x.kind, y.kind
				if k2 < k1 {
					k1, k2 = k2, k1
				}
				ctx.Count("overlap:" + k1 + "||" + k2)
			}
		}
	}
}
