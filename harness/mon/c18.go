package mon

import (
	"fmt"
	"math/rand/v2"
	"strings"

	"verif/core"
	"verif/gen"
)

// C18 — canonicalization maps equivalent spellings of a URL to the same string.
type c18 struct{}

func init() { core.Register(c18{}) }

func (c18) ID() string { return "C18" }

func (c18) Info() core.Info {
	return core.Info{
		Rule: "metamorphic monitor: an abstract ordinary web URL (grammar of C17(b)) is spelled twice by independently applying any subset of: case of scheme and host letters; hex-digit " +
			"case and depth 0-3 percent-encoding of unreserved characters in path segments, query names/values and fragment; explicit default port / empty port; inserted '.', 'x/..', " +
			"'%2e', '%2E%2e' segments (only where a '/' follows); tabs/newlines anywhere; leading/trailing C0/space; '#' with empty fragment. For GoogleSafeBrowsing, Semantic and every composed " +
			"profile with repeated decoding ALL variations apply ('all'); for every profile, including WhatWg and the 96 compositions, only the subset the standard itself normalises " +
			"(case, default port, dot segments, tabs/newlines, surrounding whitespace; 'standard'). P(a).String() must equal P(b).String() (or both fail). " +
			"Encodings are applied in layers; for a third of the pairs other parser values, or the same profile on the same raw host text in a non-special URL, run first. " +
			"Non-trivial: the two spellings differ as strings and the first canonicalizes; distinct by (profile, a, b).",
		Assumptions: []string{"percent-encoding variation inside credentials or host, '?' with an empty query and nested encodings of dot segments are not among the listed differences"},
		MinDistinct: map[string]int{"quick": 100000, "thorough": 1000000},
	}
}

func (c18) Plan(tier string) core.Plan { return core.Plan{Shards: 16} }

func repeatedProfile(r *rand.Rand) []string {
	switch r.IntN(4) {
	case 0:
		return []string{"profile:GoogleSafeBrowsing"}
	case 1:
		return []string{"profile:Semantic"}
	}
	return composedConfig(r.IntN(96) | 16)
}

func (m c18) Run(ctx *core.Ctx) {
	r := ctx.Rng
	n := split(tierN(ctx.Tier, 1_200_000, 40_000_000), ctx.Shard, ctx.NShards)
	for i := int64(0); i < n; i++ {
		w := gen.Web(r)
		cs := &core.Case{}
		if i%2 == 0 {
			cs.Check = "all"
			cs.Config = repeatedProfile(r)
			cs.Input, cs.Alt = core.S(w.Spell(r, gen.AllVariations)), core.S(w.Spell(r, gen.AllVariations))
		} else {
			cs.Check = "standard"
			switch r.IntN(6) {
			case 0:
				cs.Config = []string{gen.Pick(r, profileNames)}
			default:
				cs.Config = composedConfig(r.IntN(96))
			}
			// the percent-encoding is not varied here: the tokens are spelled once, for both
			fixed := w
			if r.IntN(2) == 0 {
				fixed = w.EncodeTokens(r)
			}
			cs.Input, cs.Alt = core.S(fixed.Spell(r, gen.StandardVariations)), core.S(fixed.Spell(r, gen.StandardVariations))
		}
		ctx.Begin(cs)
		m.Exec(ctx, cs)
	}
}

func (c18) Exec(ctx *core.Ctx, cs *core.Case) {
	p := buildParser(cs.Config)
	a, b := string(cs.Input), string(cs.Alt)
	switch len(a) % 6 {
	case 1:
		interfere(ctx, a)
	case 2:
		sameParserHistory(ctx, p, a) // the profile has just seen a's raw host text in a non-special URL
	}
	// the entry point varies as well: Parse for both; Parse vs ParseRef with an irrelevant base;
	// ParseRef with the empty base for both (refused today - if it ever answers, it must canonicalize)
	ra, rb := 0, 0
	switch k := (len(a) + len(b)) % 20; {
	case k < 5:
		rb = 1
	case k == 5:
		ra, rb = 2, 2
	case k < 10:
		ra, rb = 3, 1
	}
	ctx.Count(fmt.Sprintf("routes:%d/%d", ra, rb))
	ca, oka, pa := canonParseVia(ctx, p, a, ra)
	cb, okb, pb := canonParseVia(ctx, p, b, rb)
	if pa != nil || pb != nil {
		ctx.Count("panic(C02)")
		return
	}
	if a != b && oka {
		ctx.Nontrivial()
	}
	ctx.Count("pairs:" + cs.Check)
	if oka != okb {
		ctx.Violate("one spelling canonicalizes, the equivalent spelling is rejected ("+cs.Check+")", fmt.Sprint(oka, " ", ca), fmt.Sprint(okb, " ", cb), strings.Join(cs.Config, ","))
		return
	}
	if !oka {
		ctx.Count("both_rejected")
		return
	}
	if ca != cb {
		ctx.ViolateV(&core.Violation{Class: "two equivalent spellings canonicalize to different strings (" + cs.Check + ")", Expected: ca, Observed: cb, Note: strings.Join(cs.Config, ",")})
	}
}
