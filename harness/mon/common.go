// Package mon holds one monitor per property (DESIGN.md §5).
package mon

import (
	"fmt"
	"math/rand/v2"
	"strings"

	"github.com/nlnwa/whatwg-url/url"

	"verif/core"
	"verif/gen"
	"verif/given"
	"verif/obs"
	"verif/refmodel"
)

func init() { core.BeginHook = obs.SetOrder }

// M is the reference model with the standard's configuration and IDNA "as given".
var M = refmodel.Default(given.ToASCII)

// parseImpl parses input (optionally against base) with parser p (nil = package-level
// functions) under the step budget.  viaValue selects the (*Url).Parse entry point.
func parseImpl(ctx *core.Ctx, p url.Parser, input, base string, hasBase, viaValue bool) (u *url.Url, err error, pan *core.Panic) {
	pan = ctx.Call(len(input)+len(base), func() {
		switch {
		case !hasBase:
			if p == nil {
				u, err = url.Parse(input)
			} else {
				u, err = p.Parse(input)
			}
		case viaValue:
			var b *url.Url
			if p == nil {
				b, err = url.Parse(base)
			} else {
				b, err = p.Parse(base)
			}
			if err != nil || b == nil {
				u = nil
				if err == nil {
					err = fmt.Errorf("nil base without error")
				}
				return
			}
			u, err = b.Parse(input)
		default:
			if p == nil {
				u, err = url.ParseRef(base, input)
			} else {
				u, err = p.ParseRef(base, input)
			}
		}
	})
	return
}

// modelParse parses with the model; a base that does not parse means failure.
func modelParse(c *refmodel.Config, input, base string, hasBase bool) *refmodel.URL {
	var mb *refmodel.URL
	if hasBase {
		mb = c.Parse(base, nil)
		if mb == nil {
			return nil
		}
	}
	return c.Parse(input, mb)
}

// split distributes n items over shards.
func split(n int64, shard, nshards int) int64 {
	q := n / int64(nshards)
	if int64(shard) < n%int64(nshards) {
		q++
	}
	return q
}

func tierN(tier string, quick, thorough int64) int64 {
	if tier == "thorough" {
		return thorough
	}
	return quick
}

// smallBases are the fixed bases of W-small (DESIGN.md §4): none, special, file,
// non-special with host, opaque path.
var smallBases = []struct {
	has  bool
	base string
}{
	{false, ""},
	{true, "http://h/a/b?q#f"},
	{true, "file:///C:/a/b"},
	{true, "a://h/p/q?r#s"},
	{true, "a:p"},
}

func errString(err error) string {
	if err == nil {
		return "<nil>"
	}
	return err.Error()
}

func pickBase(r *rand.Rand) (string, bool) {
	if r.IntN(3) == 0 {
		return "", false
	}
	b := gen.Base(r)
	if b == "" {
		return "", false
	}
	return b, true
}

// Interference: parsers with other configurations that are run on the same input BEFORE the
// checked call, so that state leaking between parser values (package-level caches, memo
// fields keyed too narrowly) becomes observable to monitors that only judge the default parser.
var interferenceParsers = []url.Parser{
	url.NewParser(url.WithLaxHostParsing()),
	url.NewParser(url.WithLaxHostParsing(), url.WithAcceptInvalidCodepoints(), url.WithPercentEncodeSinglePercentSign(), url.WithCollapseConsecutiveSlashes()),
	url.NewParser(url.WithSpecialSchemes(map[string]string{"foo": "1", "http": "8080", "gopher": "7070", "file": ""})),
}

func interfere(ctx *core.Ctx, inputs ...string) {
	for _, p := range interferenceParsers {
		for _, in := range inputs {
			_ = ctx.Call(len(in)+64, func() {
				if u, err := p.Parse(in); err == nil && u != nil {
					_ = obs.Take(u) // getters too: caches may be filled on first read
				}
			})
		}
	}
	ctx.Count("interference_passes")
}

// interfereCase: as interfere, through the same entry points as the judged call - with a base,
// the other parsers resolve the same reference against the same base string (ParseRef) and
// against their own parse of it ((*Url).Parse), so that a memo of "the last base" keyed by its
// text alone is filled by another configuration first.
func interfereCase(ctx *core.Ctx, input, base string, hasBase bool) {
	if !hasBase {
		interfere(ctx, input)
		return
	}
	for _, p := range interferenceParsers {
		_ = ctx.Call(len(input)+len(base)+64, func() {
			if u, err := p.ParseRef(base, input); err == nil && u != nil {
				_ = obs.Take(u)
			}
			if b, err := p.Parse(base); err == nil && b != nil {
				_, _ = b.Parse(input)
			}
		})
	}
	ctx.Count("interference_passes")
}

// rawHostOf cuts the raw host text out of an absolute URL spelling (scheme://[userinfo@]host[:port]/...).
func rawHostOf(in string) string {
	i := strings.Index(in, "://")
	if i < 0 {
		return ""
	}
	rest := in[i+3:]
	if j := strings.IndexAny(rest, "/\\?#"); j >= 0 {
		rest = rest[:j]
	}
	if j := strings.LastIndex(rest, "@"); j >= 0 {
		rest = rest[j+1:]
	}
	if !strings.HasPrefix(rest, "[") {
		if j := strings.LastIndex(rest, ":"); j >= 0 {
			rest = rest[:j]
		}
	}
	return rest
}

// sameParserHistory: the SAME parser value first sees the same raw host text in a non-special
// URL (and the same URL under a different special scheme) - a per-parser memo keyed by the
// host text alone would now answer the checked call from the wrong entry.
func sameParserHistory(ctx *core.Ctx, p url.Parser, in string) {
	h := rawHostOf(in)
	if h == "" {
		return
	}
	for _, pre := range []string{"zz://" + h + "/", "ws://" + h + "/x"} {
		_ = ctx.Call(len(pre)+64, func() {
			if p == nil {
				_, _ = url.Parse(pre)
			} else {
				_, _ = p.Parse(pre)
			}
		})
	}
	ctx.Count("same_parser_history_passes")
}
