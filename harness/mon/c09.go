package mon

import (
	"fmt"
	"math/rand/v2"
	"strings"

	"github.com/nlnwa/whatwg-url/url"

	"verif/core"
	"verif/gen"
	"verif/refmodel"
)

// C09 — domain hosts are normalised consistently (ASCII, case, escapes): metamorphic monitor.
type c09 struct{}

func init() { core.Register(c09{}) }

func (c09) ID() string { return "C09" }

func (c09) Info() core.Info {
	return core.Info{
		Rule: "metamorphic monitor: a decoded host D (1-4 labels from ASCII LDH labels, ASCII punctuation, number-like labels, Unicode pools - mapped/fullwidth, ignored, bidi, joiners, " +
			"sharp s/final sigma - and the 2028 IdnaTestV2/toascii inputs) is spelled twice by (a) flipping the case of ASCII letters and (b) percent-encoding any subset of whole code " +
			"points (hex digits in either case; URL delimiters, tab/LF/CR and '%' itself only ever percent-encoded). https://S1/ and https://S2/ must give the same hostname or both fail; " +
			"the result must be ASCII, lowercase, free of forbidden domain code points; a pure-ASCII non-ACE D that does not end in a number must give exactly lower(D) (or fail iff it " +
			"contains a forbidden domain code point); file://<spelling of localhost>/ must give the empty host. Non-trivial: D is non-empty and the two spellings differ; distinct by (S1, S2).",
		Assumptions: []string{"no particular Unicode mapping is demanded (IDNA as given); only consistency between spellings"},
		MinDistinct: map[string]int{"quick": 100000, "thorough": 1000000},
	}
}

func (c09) Plan(tier string) core.Plan { return core.Plan{Shards: 16} }

var c09Labels = []string{"a", "b", "example", "com", "www", "x-y", "a1", "-a", "a-", "a--b", "test", "a_b", "a!b", "a$b", "a&b", "a'b", "a(b)", "a*b", "a+b", "a,b", "a;b", "a=b", "a~b", "a{b}", "a\"b", "a`b",
	"A", "ExAmPlE", "xn--nxasmq6b", "xn--a", "xn--", "Xn--NxAsMq6b", "xn--ab-miv", "1", "0x7f", "09", "256", "1a", "a b", "a/b", "a?b", "a#b", "a@b", "a:b", "a[b", "a]b", "a\\b", "a^b", "a|b", "a<b", "a>b", "a%b", "a%41b", "%61", "ex%61mple", "a%2eb", "a%2Fb", "%25", "a%2541", "a\tb", "a\nb", "a\x00b", "a\x7fb", "",
	"é", "ü", "ß", "ς", "σ", "日本", "🌈", "­", "a­b", "‍", "a‍b", "‌", "ａ", "Ａ", "１", "א", "אa", "ا", "á", "≠", "a≠b", "ǆ", "ﬁ", "℀", "İ", "ı", "K", "�", "．", "。", "。", "｡"}

// labels that are expected to survive (the relation is only interesting when hosts are accepted)
var c09Good = []string{"a", "b", "example", "com", "www", "x-y", "a1", "-a", "a-", "a--b", "test", "a_b", "a!b", "a$b", "a&b", "a'b", "a(b)", "a*b", "a+b", "a,b", "a;b", "a=b", "a~b", "a{b}", "a\"b", "a`b",
	"A", "ExAmPlE", "xn--nxasmq6b", "Xn--NxAsMq6b", "1a", "é", "ü", "ß", "ς", "σ", "日本", "a\u00adb", "ａ", "Ａ", "１x", "á", "ǆ", "ﬁ", "ı", "bücher", "ΑΒΓ", "straße", "e\u0301", "my-xn--test", "a-xn--b_c", "x~xn--y", "a_xn--b", "1-xn--1"}

func c09Host(r *rand.Rand) string {
	if r.IntN(8) == 0 && gen.C != nil {
		return gen.Pick(r, gen.C.IDNAInputs)
	}
	n := 1 + r.IntN(4)
	parts := make([]string, n)
	bad := r.IntN(3) == 0
	for i := range parts {
		if bad && r.IntN(2) == 0 {
			parts[i] = gen.Pick(r, c09Labels)
		} else {
			parts[i] = gen.Pick(r, c09Good)
		}
		if r.IntN(6) == 0 {
			parts[i] += gen.Pick(r, c09Good)
		}
	}
	if r.IntN(40) == 0 {
		// long hosts (hundreds to thousands of bytes): length limits must not depend on the spelling
		for k := 20 + r.IntN(120); k > 0; k-- {
			parts = append(parts, gen.Pick(r, []string{"a", "example", "x-y", "a1", "test", "bücher"}))
		}
	}
	sep := "."
	if r.IntN(12) == 0 {
		sep = gen.Pick(r, []string{"\uff0e", "\u3002", "\uff61"})
	}
	return strings.Join(parts, sep)
}

const c09AlwaysEncoded = "/\\?#@:[]%\t\n\r"

func c09Spell(r *rand.Rand, d string) string {
	p := []float64{0, 0.1, 0.5, 1}[r.IntN(4)]
	flip := r.IntN(2) == 0
	var sb strings.Builder
	for _, c := range d {
		if flip && r.IntN(2) == 0 {
			if c >= 'a' && c <= 'z' {
				c -= 0x20
			} else if c >= 'A' && c <= 'Z' {
				c += 0x20
			}
		}
		if strings.ContainsRune(c09AlwaysEncoded, c) || c <= 0x20 || r.Float64() < p {
			for _, b := range []byte(string(c)) {
				if r.IntN(2) == 0 {
					fmt.Fprintf(&sb, "%%%02X", b)
				} else {
					fmt.Fprintf(&sb, "%%%02x", b)
				}
			}
		} else {
			sb.WriteRune(c)
		}
	}
	return sb.String()
}

func (m c09) Run(ctx *core.Ctx) {
	r := ctx.Rng
	n := split(tierN(ctx.Tier, 1_500_000, 30_000_000), ctx.Shard, ctx.NShards)
	for i := int64(0); i < n; i++ {
		if r.IntN(25) == 0 {
			d := gen.Pick(r, []string{"localhost", "LOCALHOST", "LocalHost", "lOCALHOSt"})
			cs := &core.Case{Check: "localhost", Input: core.S(c09Spell(r, d)), Base: core.S(d), N: r.IntN(5)}
			if r.IntN(4) == 0 {
				cs.Input = core.S(d) // also the plain spellings themselves
			}
			ctx.Begin(cs)
			m.Exec(ctx, cs)
			continue
		}
		d := c09Host(r)
		cs := &core.Case{Check: "spellings", Input: core.S(c09Spell(r, d)), Alt: core.S(c09Spell(r, d)), Base: core.S(d),
			Config: []string{gen.Pick(r, []string{"https", "https", "http", "ws", "ftp", "wss"})}}
		if r.IntN(6) == 0 {
			cs.Config = append(cs.Config, "identity-hooks")
		}
		ctx.Begin(cs)
		m.Exec(ctx, cs)
	}
}

// c09Hooked: a strict parser whose host hooks hand the host back unchanged (one of them after
// looking at the URL): the host rules are the default parser's.
var c09Hooked = url.NewParser(url.WithPreParseHostFunc(hostFuncArg("identity")), url.WithPostParseHostFunc(hostFuncArg("reads")))

func (c09) hostOf(ctx *core.Ctx, input string) (string, bool, *core.Panic) {
	return c09HostOfWith(ctx, nil, input)
}

func c09HostOfWith(ctx *core.Ctx, p url.Parser, input string) (string, bool, *core.Panic) {
	u, err, pan := parseImpl(ctx, p, input, "", false, false)
	if pan != nil {
		return "", false, pan
	}
	if err != nil || u == nil {
		return "", false, nil
	}
	return u.Hostname(), true, nil
}

func (m c09) Exec(ctx *core.Ctx, cs *core.Case) {
	d := string(cs.Base)
	if cs.Check == "localhost" {
		in := "file://" + string(cs.Input) + "/x"
		ctx.Nontrivial()
		h, ok, pan := m.hostOf(ctx, in)
		if cs.N > 0 {
			// the same through the other routes by which a file URL gets a host: the host setters
			// (on a file URL without host, and on one that still carries "localhost" from its time
			// as an http URL) and a scheme-relative reference against a file base
			sp := string(cs.Input)
			route := []string{"", "SetHost on file:///x", "SetHostname on file:///x", "http://localhost/x -> SetProtocol(file) -> SetHostname", "//<spelling>/y against file:///x"}[cs.N]
			in = route + " with " + fmt.Sprintf("%q", sp)
			ctx.Count("localhost_route:" + route)
			pan = ctx.Call(len(sp)+256, func() {
				var u *url.Url
				var err error
				switch cs.N {
				case 1, 2:
					if u, err = url.Parse("file:///x"); err == nil {
						if cs.N == 1 {
							u.SetHost(sp)
						} else {
							u.SetHostname(sp)
						}
					}
				case 3:
					if u, err = url.Parse("http://localhost/x"); err == nil {
						u.SetProtocol("file")
						u.SetHostname(sp)
					}
				case 4:
					u, err = url.ParseRef("file:///x", "//"+sp+"/y")
				}
				ok = err == nil && u != nil
				if ok {
					h = u.Hostname()
				}
			})
		}
		if pan != nil {
			ctx.Violate("panic", "", pan.String(), in)
		} else if !ok || h != "" {
			ctx.Violate("a spelling of localhost in a file URL does not become the empty host", "", fmt.Sprint(h, ok), in)
		}
		ctx.Count("localhost_spellings")
		return
	}
	scheme := "https"
	if len(cs.Config) > 0 {
		scheme = cs.Config[0]
	}
	s1, s2 := string(cs.Input), string(cs.Alt)
	in1, in2 := scheme+"://"+s1+"/", scheme+"://"+s2+"/"
	if len(s1)%3 == 0 {
		interfere(ctx, in1) // e.g. a lax parser has seen one spelling before
	}
	var hp url.Parser
	if len(cs.Config) > 1 && cs.Config[1] == "identity-hooks" {
		hp = c09Hooked
		ctx.Count("under_identity_hooks")
	}
	h1, ok1, p1 := c09HostOfWith(ctx, hp, in1)
	h2, ok2, p2 := c09HostOfWith(ctx, hp, in2)
	if p1 != nil || p2 != nil {
		ctx.Violate("panic while parsing a host spelling", "", p1.String()+" "+p2.String(), in1+" | "+in2)
		return
	}
	if d != "" && s1 != s2 {
		ctx.Nontrivial()
	}
	if ok1 {
		ctx.Count("accepted")
	} else {
		ctx.Count("rejected")
	}
	if ok1 != ok2 || h1 != h2 {
		ctx.Violate("two spellings of the same host give different results", fmt.Sprintf("%q -> %q (ok=%v)", s1, h1, ok1), fmt.Sprintf("%q -> %q (ok=%v)", s2, h2, ok2), "decoded host "+fmt.Sprintf("%q", d))
		return
	}
	if ok1 && !strings.HasPrefix(h1, "[") {
		for _, r := range h1 {
			if r >= 0x80 || (r >= 'A' && r <= 'Z') || refmodel.IsForbiddenDomain(r) {
				ctx.Violate("domain host is not lowercase ASCII free of forbidden domain code points", "ASCII lowercase", h1, in1)
				return
			}
		}
	}
	// pure-ASCII, non-ACE decoded host: exactly its lowercased form
	if d != "" && refmodel.FastPathDomain(d) && !strings.HasPrefix(d, "[") {
		ld := strings.ToLower(d)
		forbidden := false
		for _, r := range ld {
			if refmodel.IsForbiddenDomain(r) {
				forbidden = true
			}
		}
		switch {
		case forbidden:
			ctx.Count("ascii_forbidden")
			if ok1 {
				ctx.Violate("host with a forbidden domain code point accepted", "failure", h1, in1)
			}
		case refmodel.EndsInANumber(ld):
			ctx.Count("ascii_ends_in_number")
			v, good := refmodel.IPv4Parse(ld)
			if good != ok1 || (good && refmodel.IPv4Serialize(v) != h1) {
				ctx.Violate("number-like ASCII host treated differently from the IPv4 rules", fmt.Sprint(good, refmodel.IPv4Serialize(v)), fmt.Sprint(ok1, h1), in1)
			}
		default:
			ctx.Count("ascii_domain")
			if !ok1 || h1 != ld {
				ctx.Violate("pure-ASCII host is not its lowercased percent-decoded form", ld, fmt.Sprint(h1, ok1), in1)
			}
		}
	}
}
