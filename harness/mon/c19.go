package mon

import (
	"fmt"
	"strconv"
	"strings"

	"github.com/nlnwa/whatwg-url/url"

	"verif/core"
	"verif/gen"
	"verif/obs"
)

// C19 — derived accessors always agree with the primary components.
type c19 struct{}

func init() { core.Register(c19{}) }

func (c19) ID() string { return "C19" }

func (c19) Info() core.Info {
	return core.Info{
		Rule: "invariant monitor after a parse and after EVERY step of a history of setters, resolutions and clones (host pools rich in IPv4/IPv6/domain switches, " +
			"ports 0/default/65535): IsIPv6 <=> hostname is [..]; IsIPv4 <=> special and hostname is four decimal octets; DecodedPort = atoi(Port) if a port is " +
			"present (incl. 0) else the scheme's default port or 0; Protocol = Scheme+':'; Search/Query and Hash/Fragment differ by the delimiter; OpaquePath <=> the text " +
			"after 'scheme:' in Href does not start with '/'; IsSpecialScheme <=> scheme in the special table. Plus histories on URLs of parsers with custom special-scheme tables interleaved in the same process " +
			"(DecodedPort / IsSpecialScheme must follow the table of the parser that made the URL) and interference passes. Non-trivial: a URL state was reached; distinct by (input, base, history).",
		Assumptions: []string{"shape rules (OpaquePath, IsIPv4) are checked under the default parser; the table-dependent accessors also under custom tables"},
		MinDistinct: map[string]int{"quick": 100000, "thorough": 1000000},
	}
}

func (c19) Plan(tier string) core.Plan { return core.Plan{Shards: 16} }

func (m c19) Run(ctx *core.Ctx) {
	L := 4
	if ctx.Tier == "thorough" {
		L = 5
	}
	runStateWorkload(ctx, m.Exec, histKinds{setters: true, resolve: true, clone: true, extra: true, sp: true}, tierN(ctx.Tier, 1_000_000, 25_000_000), tierN(ctx.Tier, 1_000_000, 25_000_000), L)
	// parsers with custom special-scheme tables, interleaved in the same process
	r := ctx.Rng
	n := split(tierN(ctx.Tier, 300_000, 4_000_000), ctx.Shard, ctx.NShards)
	for i := int64(0); i < n; i++ {
		in := gen.Pick(r, []string{"http://h/", "http://h:80/", "http://h:8080/", "gopher://h/", "gopher://h:70/", "gopher://h:7070/x", "https://h:443/", "file:///x", "file://h/x", "ws://h:81/",
			"postgres://10.0.0.7:5432/db", "postgres://h/", "postgres://0x7f.1:1/", "x://1.2.3.4:1/", "x://h:2/", "a-very.long+scheme-name9://h:65535/p", "a-very.long+scheme-name9://1.1/p", "gopher://1.2.3.4/", "file://1.2.3.4/x"})
		if r.IntN(2) == 0 {
			in = gen.StartURL(r)
		}
		cs := &core.Case{Check: "custom-table", Input: core.S(in), Config: []string{gen.Pick(r, c19Tables)},
			Ops: genHistory(r, 4, histKinds{setters: true, resolve: true, clone: true, extra: true, sp: true})}
		ctx.Begin(cs)
		m.Exec(ctx, cs)
	}
	// sampled parser-option configurations
	for i := int64(0); i < n; i++ {
		var cfg []string
		for _, o := range randomConfig(r) {
			if _, isCanon := optionForIsCanon(o); !isCanon {
				cfg = append(cfg, o)
			}
		}
		if len(cfg) == 0 {
			cfg = []string{"allownonbasepath"}
		}
		in := gen.StartURL(r)
		if r.IntN(3) == 0 {
			in = gen.Pick(r, []string{"mailto:x@y", "a:p", "data:,x  ?q#f", "mailto:%2Fx", "a:/p", "http://h/p", "file:///C|/x"})
		}
		cs := &core.Case{Check: "option-config", Input: core.S(in), Config: cfg, Ops: genHistory(r, 4, histKinds{setters: true, resolve: true, clone: true, extra: true, sp: true})}
		ctx.Begin(cs)
		m.Exec(ctx, cs)
	}
}

func isDottedDecimal(h string) bool {
	parts := strings.Split(h, ".")
	if len(parts) != 4 {
		return false
	}
	for _, p := range parts {
		if p == "" || len(p) > 3 {
			return false
		}
		for i := 0; i < len(p); i++ {
			if p[i] < '0' || p[i] > '9' {
				return false
			}
		}
		if len(p) > 1 && p[0] == '0' {
			return false
		}
		if n, _ := strconv.Atoi(p); n > 255 {
			return false
		}
	}
	return true
}

func checkAccessors(s obs.Snap) []string { return checkAccessorsWith(s, stdDefaultPorts, stdSpecial) }

// checkAccessorsWith checks against a given special-scheme table (scheme -> default port, "" = none).
func checkAccessorsWith(s obs.Snap, stdDefaultPorts map[string]string, stdSpecial map[string]bool) []string {
	var bad []string
	fail := func(f string, a ...any) { bad = append(bad, fmt.Sprintf(f, a...)) }
	v6 := strings.HasPrefix(s.Hostname, "[") && strings.HasSuffix(s.Hostname, "]")
	if s.IPv6 != v6 {
		fail("IsIPv6 = %v but hostname is %q", s.IPv6, s.Hostname)
	}
	special := stdSpecial[s.Scheme]
	v4 := special && isDottedDecimal(s.Hostname)
	if s.IPv4 != v4 {
		fail("IsIPv4 = %v but scheme %q hostname %q", s.IPv4, s.Scheme, s.Hostname)
	}
	wantPort := 0
	if s.Port != "" {
		wantPort, _ = strconv.Atoi(s.Port)
	} else if dp, ok := stdDefaultPorts[s.Scheme]; ok {
		wantPort, _ = strconv.Atoi(dp)
	}
	if s.DecodedPort != wantPort {
		fail("DecodedPort = %d, expected %d (port %q, scheme %q)", s.DecodedPort, wantPort, s.Port, s.Scheme)
	}
	if s.Protocol != s.Scheme+":" {
		fail("Protocol %q != Scheme %q + ':'", s.Protocol, s.Scheme)
	}
	wantSearch := ""
	if s.Query != "" {
		wantSearch = "?" + s.Query
	}
	if s.Search != wantSearch {
		fail("Search %q does not agree with Query %q", s.Search, s.Query)
	}
	wantHash := ""
	if s.Fragment != "" {
		wantHash = "#" + s.Fragment
	}
	if s.Hash != wantHash {
		fail("Hash %q does not agree with Fragment %q", s.Hash, s.Fragment)
	}
	rest := strings.TrimPrefix(s.Href, s.Scheme+":")
	if s.Opaque != !strings.HasPrefix(rest, "/") {
		fail("OpaquePath = %v but href is %q", s.Opaque, s.Href)
	}
	if s.Special != special {
		fail("IsSpecialScheme = %v for scheme %q", s.Special, s.Scheme)
	}
	return bad
}

// c19Tables: parsers with their own special-scheme tables (the accessors must follow the
// table of the parser that made the URL, whatever other parsers in the process use).
var c19Tables = []string{"gopher", "http8080", "nofile", "long"}

func (m c19) execTable(ctx *core.Ctx, cs *core.Case) {
	arg := cs.Config[0]
	table := specialArg(arg)
	special := map[string]bool{}
	ports := map[string]string{}
	for k, v := range table {
		special[k] = true
		if v != "" {
			ports[k] = v
		}
	}
	p := url.NewParser(url.WithSpecialSchemes(table))
	input := string(cs.Input)
	u, err, pan := parseImpl(ctx, p, input, "", false, false)
	if pan != nil || err != nil || u == nil {
		return
	}
	ctx.Nontrivial()
	ctx.Count("states_custom_table")
	check := func(where string) bool {
		var s obs.Snap
		if pan := ctx.Call(64, func() { s = obs.Take(u) }); pan != nil {
			return false
		}
		// OpaquePath/IsIPv4 shape rules are those of the default table; check the table-dependent accessors
		var bad []string
		for _, b := range checkAccessorsWith(s, ports, special) {
			if strings.HasPrefix(b, "DecodedPort") || strings.HasPrefix(b, "IsSpecialScheme") || strings.HasPrefix(b, "Protocol") || strings.HasPrefix(b, "Search") || strings.HasPrefix(b, "Hash") || strings.HasPrefix(b, "IsIPv6") || strings.HasPrefix(b, "IsIPv4") {
				bad = append(bad, b)
			}
		}
		if len(bad) > 0 {
			ctx.Violate("derived accessor disagrees under a custom special-scheme table: "+invariantClass(bad[0]), "accessors agree with the components", s.Href, where+" table "+arg+": "+strings.Join(bad, " | "))
			return false
		}
		return true
	}
	if !check("after parse") {
		return
	}
	for i, op := range cs.Ops {
		if pan := ctx.Call(opBytes(op)+len(input)+256, func() { u = applyOp(u, op) }); pan != nil {
			return
		}
		if !check(fmt.Sprintf("after step %d %s", i, clipS(op.String(), 100))) {
			return
		}
	}
}

// execConfig: the accessor relations that do not depend on what a relaxing option lets through
// (delimiter pairs, OpaquePath vs the shape of the serialization, IsIPv6 vs brackets, String = Href,
// Host = Hostname[:Port]) under sampled parser-option configurations, after every step.
func (m c19) execConfig(ctx *core.Ctx, cs *core.Case) {
	p := buildParser(cs.Config)
	input := string(cs.Input)
	u, err, pan := parseImpl(ctx, p, input, "", false, false)
	if pan != nil || err != nil || u == nil {
		return
	}
	ctx.Nontrivial()
	ctx.Count("states_option_configs")
	check := func(where string) bool {
		var s obs.Snap
		if pan := ctx.Call(64, func() { s = obs.Take(u) }); pan != nil {
			return false
		}
		var bad []string
		fail := func(f string, a ...any) { bad = append(bad, fmt.Sprintf(f, a...)) }
		if s.Protocol != s.Scheme+":" {
			fail("Protocol %q != Scheme %q + ':'", s.Protocol, s.Scheme)
		}
		if (s.Query == "") != (s.Search == "") || (s.Query != "" && s.Search != "?"+s.Query) {
			fail("Search %q does not agree with Query %q", s.Search, s.Query)
		}
		if (s.Fragment == "") != (s.Hash == "") || (s.Fragment != "" && s.Hash != "#"+s.Fragment) {
			fail("Hash %q does not agree with Fragment %q", s.Hash, s.Fragment)
		}
		if rest := strings.TrimPrefix(s.Href, s.Scheme+":"); s.Scheme != "" && s.Opaque != !strings.HasPrefix(rest, "/") {
			fail("OpaquePath = %v but href is %q", s.Opaque, s.Href)
		}
		if s.Str != s.Href {
			fail("String() %q != Href(false) %q", s.Str, s.Href)
		}
		want := s.Hostname
		if s.Port != "" {
			want += ":" + s.Port
		}
		if s.Host != want {
			fail("Host %q != Hostname[:Port] %q", s.Host, want)
		}
		if s.Port != "" {
			if n, err := strconv.Atoi(s.Port); err == nil && s.DecodedPort != n {
				fail("DecodedPort = %d but Port is %q", s.DecodedPort, s.Port)
			}
		}
		if len(bad) > 0 {
			ctx.Violate("derived accessor disagrees under a parser-option configuration: "+invariantClass(bad[0]), "accessors agree with the components", s.Href, where+" options "+strings.Join(cs.Config, ",")+": "+strings.Join(bad, " | "))
			return false
		}
		return true
	}
	if !check("after parse") {
		return
	}
	for i, op := range cs.Ops {
		if pan := ctx.Call(opBytes(op)+len(input)+256, func() { u = applyOp(u, op) }); pan != nil {
			return
		}
		if !check(fmt.Sprintf("after step %d %s", i, clipS(op.String(), 100))) {
			return
		}
	}
}

func (m c19) Exec(ctx *core.Ctx, cs *core.Case) {
	if cs.Check == "option-config" {
		m.execConfig(ctx, cs)
		return
	}
	if len(cs.Config) > 0 {
		m.execTable(ctx, cs)
		return
	}
	if len(cs.Input)%4 == 1 {
		interfere(ctx, string(cs.Input))
	}
	walkStates(ctx, cs, func(u *url.Url, where string) bool {
		var s obs.Snap
		if pan := ctx.Call(64, func() { s = obs.Take(u) }); pan != nil {
			ctx.Violate("getter panics", "returns", pan.String(), where)
			return false
		}
		if s.IPv4 {
			ctx.Count("states_ipv4")
		}
		if s.IPv6 {
			ctx.Count("states_ipv6")
		}
		if s.Port != "" {
			ctx.Count("states_with_port")
		}
		if bad := checkAccessors(s); len(bad) > 0 {
			ctx.Violate("derived accessor disagrees: "+invariantClass(bad[0]), "accessors agree with the components", s.Href, where+": "+strings.Join(bad, " | "))
			return false
		}
		return true
	})
}
