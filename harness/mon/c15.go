package mon

import (
	"fmt"
	"go/ast"
	"go/parser"
	"go/token"
	"os"
	"strconv"
	"strings"
	"sync"

	"github.com/nlnwa/whatwg-url/errors"
	"github.com/nlnwa/whatwg-url/url"

	"verif/core"
	"verif/gen"
	"verif/obs"
)

// C15 — diagnostics options never change results; errors are classified.
type c15 struct{}

func init() { core.Register(c15{}) }

func (c15) ID() string { return "C15" }

func (c15) Info() core.Info {
	return core.Info{
		Rule: "four-configuration relation on every (input, base) of C01's generators (W-small L<=5 quick / 6 thorough x 5 bases, corpus, grammar, mutation x W-bases): parsers {default, " +
			"WithReportValidationErrors, WithFailOnValidationError, both}. Reporting == default in success and full snapshot; fail-mode success => default success with equal snapshot; " +
			"without base, fail-mode succeeds <=> reporting mode succeeds with an empty ValidationErrors(); every error returned by the default and reporting parsers has a documented " +
			"errors.Type and errors.Failure = true; every entry of ValidationErrors() on a successfully parsed URL has Failure = false and a documented type; every error returned in " +
			"fail mode has a documented non-empty type. The documented set is read at run time from the constant declarations of package errors (/repo/errors/*.go). " +
			"For a quarter of the inputs every parse is made twice and the second result judged (parsers that remember their last input); 'shared-base': several references are resolved against ONE reporting-mode base value, " +
			"after which the entries recorded on an earlier accepted result and on the base must be unchanged and non-fatal. Non-trivial: at least one configuration produced a URL or a validation entry; distinct by (input, base).",
		Assumptions: []string{"errors returned in fail mode may carry Failure=false (the option exists to return non-fatal validation errors)", "agreement of the validation errors with the standard's is not demanded"},
		MinDistinct: map[string]int{"quick": 100000, "thorough": 1000000},
	}
}

func (c15) Plan(tier string) core.Plan { return core.Plan{Shards: 16} }

var (
	documentedOnce sync.Once
	documented     map[string]bool
	documentedErr  error
)

func documentedTypes() (map[string]bool, error) {
	documentedOnce.Do(func() {
		// every string constant declared in the non-test files of package errors (today all of them
		// are in codes.go; reading the whole package keeps the check indifferent to where they live)
		dir := core.RepoDir() + "/errors"
		entries, err := os.ReadDir(dir)
		if err != nil {
			documentedErr = err
			return
		}
		documented = map[string]bool{}
		fset := token.NewFileSet()
		for _, e := range entries {
			name := e.Name()
			if e.IsDir() || !strings.HasSuffix(name, ".go") || strings.HasSuffix(name, "_test.go") {
				continue
			}
			f, err := parser.ParseFile(fset, dir+"/"+name, nil, 0)
			if err != nil {
				documentedErr = err
				return
			}
			for _, d := range f.Decls {
				gd, ok := d.(*ast.GenDecl)
				if !ok || gd.Tok != token.CONST {
					continue
				}
				for _, sp := range gd.Specs {
					vs, ok := sp.(*ast.ValueSpec)
					if !ok {
						continue
					}
					for _, v := range vs.Values {
						if bl, ok := v.(*ast.BasicLit); ok && bl.Kind == token.STRING {
							if s, err := strconv.Unquote(bl.Value); err == nil {
								documented[s] = true
							}
						}
					}
				}
			}
		}
	})
	return documented, documentedErr
}

var c15Parsers = []url.Parser{
	url.NewParser(),
	url.NewParser(url.WithReportValidationErrors()),
	url.NewParser(url.WithFailOnValidationError()),
	url.NewParser(url.WithReportValidationErrors(), url.WithFailOnValidationError()),
	url.NewParser(url.WithFailOnValidationError(), url.WithReportValidationErrors()), // "both", options given in the other order
}
var c15Names = []string{"default", "reporting", "fail-on-validation-error", "reporting+fail", "fail+reporting"}

func (m c15) Run(ctx *core.Ctx) {
	L := 5
	if ctx.Tier == "thorough" {
		L = 6
	}
	total := gen.SmallCount(len(gen.SmallAlphabet), L)
	for idx := int64(ctx.Shard); idx < total; idx += int64(ctx.NShards) {
		s := gen.SmallString(gen.SmallAlphabet, idx)
		for _, b := range smallBases {
			cs := &core.Case{Check: "small", Input: core.S(s), Base: core.S(b.base), HasBase: b.has}
			ctx.Begin(cs)
			m.Exec(ctx, cs)
		}
	}
	n := split(tierN(ctx.Tier, 1_500_000, 25_000_000), ctx.Shard, ctx.NShards)
	r := ctx.Rng
	// several references resolved against ONE reporting-mode base value
	nb := split(tierN(ctx.Tier, 100_000, 3_000_000), ctx.Shard, ctx.NShards)
	for i := int64(0); i < nb; i++ {
		base := gen.ParseableBase(r)
		if r.IntN(2) == 0 {
			// bases that record a few validation entries themselves (slice capacity games)
			base = gen.Pick(r, []string{" ", "\t", ""}) + gen.Pick(r, []string{"http:\\\\h\\a\\b", "http://u:p@h/a b/c d", "http:/h/%zz/%/x y", "https://h\\\\\\x\\y\\z| ", "file:\\c|\\x y", "http://h/ a b c d e"}) + gen.Pick(r, []string{"", " ", "?a b", "#c d"})
		}
		cs := &core.Case{Check: "shared-base", Base: core.S(base), HasBase: true, Input: core.S(gen.Reference(r)), Alt: core.S(gen.Reference(r))}
		ctx.Begin(cs)
		m.Exec(ctx, cs)
	}
	// inputs with very many non-fatal validation errors, followed (or not) by a fatal one
	for k := 0; k < 6; k++ {
		cnt := gen.Pick(r, []int{1001, 1024, 1100, 4097, 10000})
		many := gen.Pick(r, []string{"http:" + strings.Repeat("/", cnt), "http://h/" + strings.Repeat(" a", cnt), "http://h/?" + strings.Repeat("%", cnt), "a:" + strings.Repeat("\u00a0 ", cnt) + "//"})
		tail := gen.Pick(r, []string{"exa mple.com/", "1.2.3.4.5/", "h:99999/", "[::1/", "h/ok", "", "#f", "h:8a/"})
		cs := &core.Case{Check: "many-errors", Input: core.S(many + tail)}
		ctx.Begin(cs)
		m.Exec(ctx, cs)
	}
	// reporting combined with other parser options: what is recorded on an accepted URL is non-fatal
	nc := split(tierN(ctx.Tier, 100_000, 3_000_000), ctx.Shard, ctx.NShards)
	for i := int64(0); i < nc; i++ {
		cfg := []string{"report"}
		for _, o := range randomConfig(r) {
			if _, isCanon := optionForIsCanon(o); !isCanon && o != "report" && o != "failonerr" {
				cfg = append(cfg, o)
			}
		}
		in := gen.Input(r)
		if r.IntN(3) == 0 {
			in = gen.Pick(r, []string{"http://", "https://", "ws://"}) + gen.Host(r) + "/"
		}
		cs := &core.Case{Check: "entries-config", Input: core.S(in), Config: cfg}
		ctx.Begin(cs)
		m.Exec(ctx, cs)
	}
	// reporting is neutral under ANY configuration: X and X + reporting agree in success and result
	// (parser options and canonicalization options alike; fail-on-validation-error is left out of X,
	// it has its own clauses)
	for i := int64(0); i < nc; i++ {
		var cfg []string
		for _, o := range randomConfig(r) {
			if o != "report" && o != "failonerr" && !strings.HasPrefix(o, "profile:") {
				cfg = append(cfg, o)
			}
		}
		if len(cfg) == 0 || r.IntN(3) == 0 {
			cfg = composedConfig(r.IntN(96))
		}
		in := gen.Input(r)
		switch r.IntN(4) {
		case 0:
			in = gen.Pick(r, []string{"foo://", "http://", "sc://", "a://"}) + gen.PercentEncodeSome(r, gen.PercentEncodeSome(r, gen.Host(r), 0.3), 0.3) + "/" + gen.PathSeg(r)
		case 1:
			in = gen.Web(r).Spell(r, gen.AllVariations)
		}
		cs := &core.Case{Check: "report-neutral", Input: core.S(in), Config: cfg}
		if r.IntN(4) == 0 {
			cs.Base, cs.HasBase = core.S(gen.ParseableBase(r)), true
			cs.Input = core.S(gen.Reference(r))
		}
		if r.IntN(3) == 0 {
			// a setter history on both URLs (reporting must not change what any later call does either); hostile values,
			// rejected values, and the same text given to several setters in a row
			if r.IntN(2) == 0 {
				cs.Input, cs.HasBase = core.S(gen.StartURL(r)), false
			}
			cs.Ops = genHistory(r, 5, histKinds{setters: true, resolve: true, clone: true})
			if len(cs.Ops) > 1 && r.IntN(2) == 0 {
				v := gen.Pick(r, []string{"a b:", " x", "a\tb", "é<>", "%zz", "h ost", "1 2", "[::1", "a|b:", "\"q\""})
				for j := range cs.Ops {
					if len(cs.Ops[j].Args) == 1 && obs.IsSetter(cs.Ops[j].Name) {
						cs.Ops[j].Args = []core.S{core.S(v)}
					}
				}
			}
		}
		ctx.Begin(cs)
		m.Exec(ctx, cs)
	}
	for i := int64(0); i < n; i++ {
		in := gen.Input(r)
		if r.IntN(4) == 0 {
			in = gen.Reference(r)
		}
		base, has := pickBase(r)
		cs := &core.Case{Check: "generated", Input: core.S(in), Base: core.S(base), HasBase: has}
		ctx.Begin(cs)
		m.Exec(ctx, cs)
	}
}

type entrySnap struct {
	typ     string
	failure bool
	text    string
}

func snapEntries(es []error) []entrySnap {
	out := make([]entrySnap, len(es))
	for i, e := range es {
		out[i] = entrySnap{string(errors.Type(e)), errors.Failure(e), e.Error()}
	}
	return out
}

func entriesEqual(a, b []entrySnap) bool {
	if len(a) != len(b) {
		return false
	}
	for i := range a {
		if a[i] != b[i] {
			return false
		}
	}
	return true
}

// sharedBase: what is recorded on a successfully parsed URL stays what it is (and stays
// non-fatal) while other references are resolved against the same base value.
func (c15) sharedBase(ctx *core.Ctx, cs *core.Case, doc map[string]bool) {
	p := c15Parsers[1]
	b, err, pan := parseImpl(ctx, p, string(cs.Base), "", false, false)
	if pan != nil || err != nil || b == nil {
		return
	}
	var r1 *url.Url
	var e1 error
	if pan := ctx.Call(len(cs.Input)+len(cs.Base)+64, func() { r1, e1 = b.Parse(string(cs.Input)) }); pan != nil || e1 != nil || r1 == nil {
		return
	}
	ctx.Nontrivial()
	ctx.Count("shared_base_cases")
	before := snapEntries(r1.ValidationErrors())
	baseBefore := snapEntries(b.ValidationErrors())
	for _, ref := range []string{string(cs.Alt), "\x00 http://[::1", string(cs.Alt) + " x", "%zz y"} {
		_ = ctx.Call(len(ref)+len(cs.Base)+64, func() { _, _ = b.Parse(ref) })
	}
	after := snapEntries(r1.ValidationErrors())
	if !entriesEqual(before, after) {
		ctx.Violate("the entries recorded on a successfully parsed URL changed while other references were resolved against the same base", fmt.Sprint(before), fmt.Sprint(after), "")
		return
	}
	if ba := snapEntries(b.ValidationErrors()); !entriesEqual(baseBefore, ba) {
		ctx.Violate("the entries recorded on a base URL changed while references were resolved against it", fmt.Sprint(baseBefore), fmt.Sprint(ba), "")
		return
	}
	for _, e := range after {
		if e.failure || !doc[e.typ] {
			ctx.Violate("an entry recorded on a successfully parsed URL is marked as a failure (or has no documented type)", false, e.failure, e.text)
			return
		}
	}
}

func (m c15) Exec(ctx *core.Ctx, cs *core.Case) {
	doc, derr := documentedTypes()
	if derr != nil || len(doc) < 10 {
		ctx.Broken("cannot read the documented error types from the constant declarations of /repo/errors/*.go")
		return
	}
	if cs.Check == "shared-base" {
		m.sharedBase(ctx, cs, doc)
		return
	}
	if cs.Check == "report-neutral" {
		p0 := buildParser(cs.Config)
		p1 := buildParser(append(append([]string{}, cs.Config...), "report"))
		in, base := string(cs.Input), string(cs.Base)
		hasBase := cs.HasBase && base != ""
		u0, e0, pan0 := parseImpl(ctx, p0, in, base, hasBase, false)
		u1, e1, pan1 := parseImpl(ctx, p1, in, base, hasBase, false)
		if pan0 != nil || pan1 != nil {
			ctx.Count("panics(C02)")
			return
		}
		ok0, ok1 := e0 == nil && u0 != nil, e1 == nil && u1 != nil
		if ok0 || ok1 {
			ctx.Nontrivial()
		}
		ctx.Count("report_neutral_cases")
		if ok0 != ok1 {
			ctx.Violate("turning on validation-error reporting changed whether parsing succeeds (under a configuration)", fmt.Sprint(ok0, " ", errString(e0)), fmt.Sprint(ok1, " ", errString(e1)), strings.Join(cs.Config, ","))
			return
		}
		if ok0 {
			if a, b := obs.Take(u0), obs.Take(u1); a != b {
				ctx.Violate("turning on validation-error reporting changed the result (under a configuration)", a.Href, b.Href, strings.Join(cs.Config, ",")+": "+strings.Join(obs.Diff(a, b), "; "))
				return
			}
			for i, op := range cs.Ops {
				var q0, q1 *core.Panic
				q0 = ctx.Call(opBytes(op)+len(in)+len(base)+256, func() { u0 = applyOp(u0, op) })
				q1 = ctx.Call(opBytes(op)+len(in)+len(base)+256, func() { u1 = applyOp(u1, op) })
				if q0 != nil || q1 != nil {
					ctx.Count("panics(C02)")
					return
				}
				ctx.Count("report_neutral_history_steps")
				if a, b := obs.Take(u0), obs.Take(u1); a != b {
					ctx.Violate("turning on validation-error reporting changed what a later operation does (setter history under a configuration)", a.Href, b.Href,
						fmt.Sprintf("%s: step %d %s: %s", strings.Join(cs.Config, ","), i, op.Name, strings.Join(obs.Diff(a, b), "; ")))
					return
				}
			}
		}
		return
	}
	if cs.Check == "entries-config" {
		p := buildParser(cs.Config)
		u, err, pan := parseImpl(ctx, p, string(cs.Input), "", false, false)
		if pan != nil || err != nil || u == nil {
			return
		}
		ctx.Nontrivial()
		ctx.Count("entries_config_urls")
		for _, e := range u.ValidationErrors() {
			t := string(errors.Type(e))
			if errors.Failure(e) || t == "" || !doc[t] {
				ctx.Violate("an entry recorded on a URL that was accepted (reporting combined with other parser options) is marked as a failure or has no documented type",
					"non-fatal, documented", fmt.Sprintf("failure=%v type=%q", errors.Failure(e), t), strings.Join(cs.Config, ",")+": "+e.Error())
				return
			}
		}
		return
	}
	input, base := string(cs.Input), string(cs.Base)
	hasBase := cs.HasBase && base != ""
	var us [5]*url.Url
	var errs [5]error
	var snaps [5]obs.Snap
	var ok [5]bool
	repeat := len(input)%4 == 2
	for i, p := range c15Parsers {
		var pan *core.Panic
		if repeat {
			// the same call twice, judging the SECOND result: a parser that remembers its last input
			// must not answer differently (results, recorded entries) on a repeat
			_, _, _ = parseImpl(ctx, p, input, base, hasBase, false)
		}
		us[i], errs[i], pan = parseImpl(ctx, p, input, base, hasBase, false)
		if pan != nil {
			ctx.Violate("panic under the "+c15Names[i]+" parser", "", pan.String(), "")
			return
		}
		ok[i] = errs[i] == nil && us[i] != nil
		if ok[i] {
			snaps[i] = obs.Take(us[i])
		}
	}
	var entries []error
	if ok[1] {
		entries = us[1].ValidationErrors()
	}
	if ok[0] || ok[1] || ok[2] || ok[3] || ok[4] || len(entries) > 0 {
		ctx.Nontrivial()
	}
	if ok[0] {
		ctx.Count("default_accepts")
	}
	if ok[2] {
		ctx.Count("failmode_accepts")
	}
	if len(entries) > 0 {
		ctx.Count("urls_with_validation_entries")
	}
	if ok[0] != ok[1] {
		ctx.Violate("turning on validation-error reporting changed whether parsing succeeds", ok[0], ok[1], errString(errs[0])+" / "+errString(errs[1]))
		return
	}
	if ok[0] && snaps[0] != snaps[1] {
		ctx.Violate("turning on validation-error reporting changed the result", snaps[0].Href, snaps[1].Href, strings.Join(obs.Diff(snaps[0], snaps[1]), "; "))
		return
	}
	for _, i := range []int{2, 3, 4} {
		if ok[i] && !ok[0] {
			ctx.Violate("fail-on-validation-error mode accepts what the default parser rejects", errString(errs[0]), snaps[i].Href, c15Names[i])
			return
		}
		if ok[i] && snaps[i] != snaps[0] {
			ctx.Violate("fail-on-validation-error mode returns a different URL", snaps[0].Href, snaps[i].Href, c15Names[i]+": "+strings.Join(obs.Diff(snaps[0], snaps[i]), "; "))
			return
		}
	}
	if !hasBase {
		clean := ok[1] && len(entries) == 0
		for _, i := range []int{2, 3, 4} {
			if ok[i] != clean {
				ctx.Violate("fail-on-validation-error mode does not accept exactly the inputs for which reporting mode records nothing",
					clean, ok[i], c15Names[i]+": reporting ok="+strconv.FormatBool(ok[1])+" entries="+strconv.Itoa(len(entries))+" first="+firstErr(entries)+" failerr="+errString(errs[i]))
				return
			}
		}
	}
	for _, i := range []int{0, 1} {
		if errs[i] != nil {
			t := string(errors.Type(errs[i]))
			if t == "" || !doc[t] {
				ctx.Violate("an error returned by a parse has no documented error type", "documented type", t, c15Names[i]+": "+errString(errs[i]))
				return
			}
			if !errors.Failure(errs[i]) {
				ctx.Violate("an error returned by a parse is not marked as a failure", true, false, c15Names[i]+": "+errString(errs[i]))
				return
			}
			ctx.Count("errors_classified")
		}
	}
	for _, i := range []int{2, 3, 4} {
		if errs[i] != nil {
			t := string(errors.Type(errs[i]))
			if t == "" || !doc[t] {
				ctx.Violate("an error returned in fail mode has no documented error type", "documented type", t, c15Names[i]+": "+errString(errs[i]))
				return
			}
		}
	}
	for _, e := range entries {
		t := string(errors.Type(e))
		if t == "" || !doc[t] {
			ctx.Violate("a recorded validation entry has no documented error type", "documented type", t, errString(e))
			return
		}
		if errors.Failure(e) {
			ctx.Violate("an entry recorded on a successfully parsed URL is marked as a failure", false, true, errString(e))
			return
		}
		ctx.Count("entries_checked")
	}
	for _, i := range []int{3, 4} {
		if ok[i] && len(us[i].ValidationErrors()) > 0 {
			ctx.Violate("fail mode accepted a URL although it recorded validation entries", 0, len(us[i].ValidationErrors()), c15Names[i]+": "+firstErr(us[i].ValidationErrors()))
		}
	}
}

func firstErr(es []error) string {
	if len(es) == 0 {
		return "<none>"
	}
	return es[0].Error()
}
