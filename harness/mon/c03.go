package mon

import (
	"fmt"
	"strings"

	"github.com/nlnwa/whatwg-url/url"

	"verif/core"
	"verif/gen"
	"verif/obs"
	"verif/refmodel"
)

// C03 — serialize-then-parse is the identity on every reachable URL.
type c03 struct{}

func init() { core.Register(c03{}) }

func (c03) ID() string { return "C03" }

func (c03) Info() core.Info {
	return core.Info{
		Rule: "fixed-point monitor: for every URL u reached by a parse (C01's generators: W-small L<=4/5, corpus, grammar, mutation x bases) and after EVERY step of a " +
			"setter history (1-6 / 1-10 setter calls, pools as in C05), url.Parse(u.Href(false)) must succeed and agree with u in Href and the nine getters. " +
			"Exemption decided by the reference model, not by a list: a state is exempt iff the model, driven through the same history, is in the same state and the " +
			"model itself does not round-trip there ('the standard's own algorithms do not round-trip'); exemptions are counted. " +
			"Non-trivial: a URL state was reached and re-parsed; distinct by (input, base, history).",
		Assumptions: []string{"the exemption relies on the reference model (SPEC-NOTES.md)", "IDNA mapping as given"},
		MinDistinct: map[string]int{"quick": 100000, "thorough": 1000000},
		NeedsModel:  true,
	}
}

func (c03) Plan(tier string) core.Plan { return core.Plan{Shards: 16} }

func (m c03) Run(ctx *core.Ctx) {
	r := ctx.Rng
	L := 4
	maxLen := 6
	if ctx.Tier == "thorough" {
		L = 5
		maxLen = 10
	}
	total := gen.SmallCount(len(gen.SmallAlphabet), L)
	for idx := int64(ctx.Shard); idx < total; idx += int64(ctx.NShards) {
		s := gen.SmallString(gen.SmallAlphabet, idx)
		for _, b := range smallBases {
			cs := &core.Case{Check: "small", Input: core.S(s), Base: core.S(b.base), HasBase: b.has}
			ctx.Begin(cs)
			m.Exec(ctx, cs)
		}
	}
	n := split(tierN(ctx.Tier, 2_000_000, 30_000_000), ctx.Shard, ctx.NShards)
	for i := int64(0); i < n; i++ {
		in := gen.Input(r)
		if r.IntN(4) == 0 {
			in = gen.Reference(r)
		}
		base, has := pickBase(r)
		cs := &core.Case{Check: "parse", Input: core.S(in), Base: core.S(base), HasBase: has}
		ctx.Begin(cs)
		m.Exec(ctx, cs)
	}
	n = split(tierN(ctx.Tier, 800_000, 25_000_000), ctx.Shard, ctx.NShards)
	for i := int64(0); i < n; i++ {
		in, base, has := startCase(r)
		cs := &core.Case{Check: "history", Input: core.S(in), Base: core.S(base), HasBase: has,
			Ops: genHistory(r, maxLen, histKinds{setters: true})}
		ctx.Begin(cs)
		m.Exec(ctx, cs)
	}
}

// modelRoundTrips: does the model's own state survive serialize -> parse?
// The IDNA mapping is taken as given AND as idempotent here: a serialized host is ASCII, and
// an ASCII domain that the given mapping rejects is kept as it is.  Otherwise an
// inconsistency of the given mapping (it emits an A-label it then refuses) would count as
// "the standard does not round-trip" and hide exactly the defect this property is about.
var mIdem = func() *refmodel.Config {
	c := refmodel.Default(func(d string) (string, bool) {
		if a, ok := M.ToASCII(d); ok {
			return a, true
		}
		for i := 0; i < len(d); i++ {
			if d[i] >= 0x80 {
				return "", false
			}
		}
		return strings.ToLower(d), d != ""
	})
	return c
}()

func modelRoundTrips(mu *refmodel.URL) bool {
	again := mIdem.Parse(mu.Href(false), nil)
	return again != nil && again.Ten() == mu.Ten()
}

func (c03) roundTrip(ctx *core.Ctx, u *url.Url, mu *refmodel.URL, where string) bool {
	var href string
	var ten [10]string
	if pan := ctx.Call(64, func() { href = u.Href(false); ten = obs.TakeTen(u) }); pan != nil {
		ctx.Violate("getter panics", "returns", pan.String(), where)
		return false
	}
	u2, err, pan := parseImpl(ctx, nil, href, "", false, false)
	ctx.Nontrivial()
	ctx.Count("states_reparsed")
	exempt := func() bool {
		if mu != nil && mu.Ten() == ten && !modelRoundTrips(mu) {
			ctx.Count("exempt_standard_does_not_round_trip")
			if l := ctx.Res.Lists["exempt_examples"]; len(l) < 3 {
				ctx.Res.Lists["exempt_examples"] = append(l, clipS(href, 80)+"  ["+clipS(where, 80)+"]")
			}
			return true
		}
		return false
	}
	if pan != nil {
		ctx.Violate("re-parsing the serialization panics", href, pan.String(), where)
		return false
	}
	if err != nil || u2 == nil {
		if exempt() {
			return true
		}
		ctx.ViolateV(&core.Violation{Class: "the serialization of a reachable URL does not parse", Expected: href, Observed: errString(err), Note: where})
		return false
	}
	if got := obs.TakeTen(u2); got != ten {
		if exempt() {
			return true
		}
		ctx.Violate("serialize-then-parse is not the identity", ten, got, where+": "+strings.Join(obs.DiffTen(refmodel.TenNames, ten, got), "; "))
		return false
	}
	return true
}

func (m c03) Exec(ctx *core.Ctx, cs *core.Case) {
	input, base := string(cs.Input), string(cs.Base)
	hasBase := cs.HasBase && base != ""
	u, err, pan := parseImpl(ctx, nil, input, base, hasBase, false)
	if pan != nil || err != nil || u == nil {
		ctx.Count("start_rejected")
		return
	}
	mu := modelParse(M, input, base, hasBase)
	if !m.roundTrip(ctx, u, mu, "after parse") {
		return
	}
	for i, op := range cs.Ops {
		if mu != nil {
			op = respellOp(op, mu.Ten())
		} else {
			op = respellOp(op, obs.TakeTen(u))
		}
		if !obs.IsSetter(op.Name) {
			continue
		}
		v := op.Arg(0)
		if pan := ctx.Call(len(v)+len(u.Href(false)), func() { obs.ApplySetter(u, op.Name, v) }); pan != nil {
			ctx.Count("setter_panics(C02)")
			return
		}
		if mu != nil {
			M.ApplySetter(mu, op.Name, v)
		}
		if !m.roundTrip(ctx, u, mu, fmt.Sprintf("after step %d %s", i, op)) {
			return
		}
	}
}
