package mon

import (
	"fmt"
	"regexp"
	"strconv"
	"strings"

	"github.com/nlnwa/whatwg-url/url"

	"verif/core"
	"verif/gen"
	"verif/obs"
	"verif/refmodel"
)

// C04 — every reachable URL is a well-formed URL record with coherent getters
// (invariant monitor at every quiescent point = after every API call).
type c04 struct{}

func init() { core.Register(c04{}) }

func (c04) ID() string { return "C04" }

func (c04) Info() core.Info {
	return core.Info{
		Rule: "invariant monitor: after a parse (corpus/grammar/mutated inputs x bases, W-small L<=4) and after EVERY step of a history of setter calls and resolutions of " +
			"further references against the current URL, the structural invariants of the property are asserted on the getters: scheme grammar; special => host " +
			"(non-empty unless file), path starts with '/', not opaque; opaque => no host; credentials/port => non-empty host and not file; port canonical, in range, " +
			"not the default; Href printable ASCII (space only inside an opaque path); no member of a component's percent-encode set literally in that component; no " +
			"forbidden host/domain code point in the host; Href = composition of the getters (with '/.' guard); Host = Hostname[:Port]; Href(true) = Href(false) cut at '#'; " +
			"String() = Href(false). Non-trivial: a URL state was reached and checked; distinct by (input, base, history).",
		Assumptions: []string{"percent-encode sets and forbidden sets as in SPEC-NOTES.md §A", "default parser only"},
		MinDistinct: map[string]int{"quick": 100000, "thorough": 1000000},
	}
}

func (c04) Plan(tier string) core.Plan { return core.Plan{Shards: 16} }

func runStateWorkload(ctx *core.Ctx, exec func(*core.Ctx, *core.Case), kinds histKinds, nParse, nHist int64, L int) {
	r := ctx.Rng
	maxLen := 6
	if ctx.Tier == "thorough" {
		maxLen = 10
	}
	total := gen.SmallCount(len(gen.SmallAlphabet), L)
	for idx := int64(ctx.Shard); idx < total; idx += int64(ctx.NShards) {
		s := gen.SmallString(gen.SmallAlphabet, idx)
		for _, b := range smallBases {
			cs := &core.Case{Check: "small", Input: core.S(s), Base: core.S(b.base), HasBase: b.has}
			ctx.Begin(cs)
			exec(ctx, cs)
		}
	}
	n := split(nParse, ctx.Shard, ctx.NShards)
	for i := int64(0); i < n; i++ {
		in := gen.Input(r)
		if r.IntN(4) == 0 {
			in = gen.Reference(r)
		}
		base, has := pickBase(r)
		cs := &core.Case{Check: "parse", Input: core.S(in), Base: core.S(base), HasBase: has}
		ctx.Begin(cs)
		exec(ctx, cs)
	}
	n = split(nHist, ctx.Shard, ctx.NShards)
	for i := int64(0); i < n; i++ {
		in, base, has := startCase(r)
		cs := &core.Case{Check: "history", Input: core.S(in), Base: core.S(base), HasBase: has, Ops: genHistory(r, maxLen, kinds)}
		if r.IntN(25) == 0 {
			// the tenth setter: parameters that come from a URL of another parser configuration
			k := r.IntN(len(cs.Ops) + 1)
			cs.Ops = append(cs.Ops[:k:k], append([]core.Op{sOp("setsp-foreign", gen.Pick(r, []string{"q=\"x\"&r=1", "a=<b>&c", "k=`{}`", "a=b c&d=' '", "x"}))}, cs.Ops[k:]...)...)
		}
		ctx.Begin(cs)
		exec(ctx, cs)
	}
}

func (m c04) Run(ctx *core.Ctx) {
	L := 4
	if ctx.Tier == "thorough" {
		L = 5
	}
	runStateWorkload(ctx, m.Exec, histKinds{setters: true, resolve: true, extra: true}, tierN(ctx.Tier, 1_200_000, 30_000_000), tierN(ctx.Tier, 900_000, 20_000_000), L)
	// the composition clauses under sampled parser configurations
	r := ctx.Rng
	n := split(tierN(ctx.Tier, 400_000, 6_000_000), ctx.Shard, ctx.NShards)
	for i := int64(0); i < n; i++ {
		cfg := randomConfig(r)
		if r.IntN(4) == 0 {
			cfg = append(cfg, gen.Pick(r, []string{"prehost:reads", "posthost:reads"}))
		}
		in, base, has := startCase(r)
		if r.IntN(3) == 0 {
			in = gen.Input(r)
		}
		cs := &core.Case{Check: "option-config", Input: core.S(in), Base: core.S(base), HasBase: has, Config: cfg, Ops: genHistory(r, 4, histKinds{setters: true, resolve: true, extra: true})}
		ctx.Begin(cs)
		m.Exec(ctx, cs)
	}
}

// walkStates parses the start and applies the history, calling each(u, where) at every
// quiescent point.  each returns false to stop.
func walkStates(ctx *core.Ctx, cs *core.Case, each func(u *url.Url, where string) bool) {
	input, base := string(cs.Input), string(cs.Base)
	hasBase := cs.HasBase && base != ""
	u, err, pan := parseImpl(ctx, nil, input, base, hasBase, false)
	if pan != nil || err != nil || u == nil {
		ctx.Count("start_rejected")
		return
	}
	ctx.Nontrivial()
	ctx.Count("states")
	if !each(u, "after parse") {
		return
	}
	for i, op := range cs.Ops {
		href := u.Href(false)
		if pan := ctx.Call(opBytes(op)+len(href), func() { u = applyOp(u, op) }); pan != nil {
			ctx.Count("op_panics(C02)")
			return
		}
		ctx.Count("states")
		ctx.Count("op:" + opKind(op.Name))
		if !each(u, fmt.Sprintf("after step %d %s (before: %q)", i, clipS(op.String(), 160), clipS(href, 160))) {
			return
		}
	}
}

var schemeRe = regexp.MustCompile(`^[a-z][a-z0-9+.\-]*$`)

var stdDefaultPorts = map[string]string{"ftp": "21", "http": "80", "https": "443", "ws": "80", "wss": "443"}
var stdSpecial = map[string]bool{"ftp": true, "file": true, "http": true, "https": true, "ws": true, "wss": true}

func literalMember(s string, set refmodel.Set) (rune, bool) {
	for _, r := range s {
		if set(r) {
			return r, true
		}
	}
	return 0, false
}

// checkInvariants returns the list of violated invariants of a snapshot.
func checkInvariants(s obs.Snap) []string {
	var bad []string
	fail := func(f string, a ...any) { bad = append(bad, fmt.Sprintf(f, a...)) }
	special := stdSpecial[s.Scheme]
	if !schemeRe.MatchString(s.Scheme) {
		fail("scheme %q is not alpha *(alnum / + / - / .) in lowercase", s.Scheme)
	}
	if special {
		if s.Scheme != "file" && s.Hostname == "" {
			fail("special scheme %q without a host", s.Scheme)
		}
		if !strings.HasPrefix(s.Pathname, "/") {
			fail("special URL whose pathname %q does not start with '/'", s.Pathname)
		}
		if s.Opaque {
			fail("special URL with an opaque path")
		}
	}
	rest := strings.TrimPrefix(s.Href, s.Protocol)
	if !strings.HasPrefix(s.Href, s.Protocol) {
		fail("href %q does not start with protocol %q", s.Href, s.Protocol)
	}
	if s.Opaque {
		if s.Host != "" || s.Hostname != "" {
			fail("opaque path with host %q", s.Host)
		}
		if strings.HasPrefix(rest, "/") {
			fail("opaque path but the serialization continues with '/' after the scheme")
		}
	}
	if (s.Username != "" || s.Password != "" || s.Port != "") && (s.Hostname == "" || s.Scheme == "file") {
		fail("credentials or port (%q:%q, port %q) on a URL that cannot have them (host %q, scheme %q)", s.Username, s.Password, s.Port, s.Hostname, s.Scheme)
	}
	if s.Port != "" {
		n, err := strconv.Atoi(s.Port)
		if err != nil || strconv.Itoa(n) != s.Port || n < 0 || n > 65535 {
			fail("port %q is not a canonical decimal in 0..65535", s.Port)
		}
		if dp, ok := stdDefaultPorts[s.Scheme]; ok && dp == s.Port {
			fail("port %q is the default port of %q", s.Port, s.Scheme)
		}
	}
	// printable ASCII; space only inside an opaque path
	for i := 0; i < len(s.Href); i++ {
		c := s.Href[i]
		if c < 0x20 || c > 0x7E {
			fail("href contains byte 0x%02X", c)
			break
		}
	}
	if strings.Contains(s.Href, " ") && !(s.Opaque && strings.Count(s.Href, " ") == strings.Count(s.Pathname, " ")) {
		fail("href contains a space outside an opaque path")
	}
	// percent-encode sets
	if r, ok := literalMember(s.Username, refmodel.UserinfoSet); ok {
		fail("username contains %q of the userinfo percent-encode set", r)
	}
	if r, ok := literalMember(s.Password, refmodel.UserinfoSet); ok {
		fail("password contains %q of the userinfo percent-encode set", r)
	}
	if s.Opaque {
		if r, ok := literalMember(s.Pathname, refmodel.C0ControlSet); ok {
			fail("opaque path contains %q of the C0 control percent-encode set", r)
		}
	} else if r, ok := literalMember(s.Pathname, refmodel.PathSet); ok {
		fail("pathname contains %q of the path percent-encode set", r)
	}
	qset := refmodel.QuerySet
	if special {
		qset = refmodel.SpecialQuerySet
	}
	if r, ok := literalMember(s.Query, qset); ok {
		fail("query contains %q of its percent-encode set", r)
	}
	if r, ok := literalMember(s.Fragment, refmodel.FragmentSet); ok {
		fail("fragment contains %q of the fragment percent-encode set", r)
	}
	// host code points
	if s.Hostname != "" && !strings.HasPrefix(s.Hostname, "[") {
		if special {
			for _, r := range s.Hostname {
				if refmodel.IsForbiddenDomain(r) {
					fail("domain host %q contains the forbidden domain code point %q", s.Hostname, r)
					break
				}
				if r >= 0x80 || (r >= 'A' && r <= 'Z') {
					fail("domain host %q is not lowercase ASCII", s.Hostname)
					break
				}
			}
		} else {
			for _, r := range s.Hostname {
				if refmodel.IsForbiddenHost(r) {
					fail("opaque host %q contains the forbidden host code point %q", s.Hostname, r)
					break
				}
			}
		}
	}
	// Host = Hostname [":" Port]
	wantHost := s.Hostname
	if s.Port != "" {
		wantHost += ":" + s.Port
	}
	if s.Host != wantHost {
		fail("Host %q != Hostname[:Port] %q", s.Host, wantHost)
	}
	// composition
	after := rest
	hasAuthority := strings.HasPrefix(rest, "//")
	if hasAuthority {
		auth := "//"
		if s.Username != "" || s.Password != "" {
			auth += s.Username
			if s.Password != "" {
				auth += ":" + s.Password
			}
			auth += "@"
		}
		auth += s.Host
		if !strings.HasPrefix(rest, auth) {
			fail("href %q does not continue with the authority %q", s.Href, auth)
		}
		after = strings.TrimPrefix(rest, auth)
	} else if s.Hostname != "" || s.Username != "" || s.Password != "" || s.Port != "" {
		fail("href %q has no authority but the getters report one", s.Href)
	}
	guard := ""
	if !hasAuthority && !s.Opaque && strings.HasPrefix(s.Pathname, "//") {
		guard = "/."
	}
	qs := []string{s.Search}
	if s.Search == "" {
		qs = []string{"", "?"}
	}
	fs := []string{s.Hash}
	if s.Hash == "" {
		fs = []string{"", "#"}
	}
	composed := false
	for _, q := range qs {
		for _, f := range fs {
			if after == guard+s.Pathname+q+f {
				composed = true
			}
		}
	}
	if !composed {
		fail("href %q is not protocol + [//userinfo@host] + %q + pathname %q + search %q + hash %q", s.Href, guard, s.Pathname, s.Search, s.Hash)
	}
	// Href(true)
	cut := s.Href
	if i := strings.IndexByte(cut, '#'); i >= 0 {
		cut = cut[:i]
	}
	if s.HrefNoFrag != cut {
		fail("Href(true) %q is not Href(false) without the fragment %q", s.HrefNoFrag, cut)
	}
	if s.Str != s.Href {
		fail("String() %q != Href(false) %q", s.Str, s.Href)
	}
	return bad
}

// checkComposition: the clauses of C04 that are pure relations between getters and therefore
// hold under every parser configuration: the serialization is the concatenation of the getters
// (with the '/.' guard), Host = Hostname[:Port], Href(true) = Href(false) without the fragment,
// String() = Href(false).
func checkComposition(s obs.Snap) []string {
	var bad []string
	fail := func(f string, a ...any) { bad = append(bad, fmt.Sprintf(f, a...)) }
	wantHost := s.Hostname
	if s.Port != "" {
		wantHost += ":" + s.Port
	}
	if s.Host != wantHost {
		fail("Host %q != Hostname[:Port] %q", s.Host, wantHost)
	}
	userinfo := ""
	if s.Username != "" || s.Password != "" {
		userinfo = s.Username
		if s.Password != "" {
			userinfo += ":" + s.Password
		}
		userinfo += "@"
	}
	auths := []string{"//" + userinfo + s.Host}
	if s.Host == "" && userinfo == "" {
		auths = append(auths, "") // a null host: no authority at all
	}
	qs := []string{s.Search}
	if s.Search == "" {
		qs = []string{"", "?"}
	}
	fs := []string{s.Hash}
	if s.Hash == "" {
		fs = []string{"", "#"}
	}
	composed, composedNoFrag := false, false
	for _, a := range auths {
		guards := []string{""}
		if a == "" && !s.Opaque && strings.HasPrefix(s.Pathname, "//") {
			guards = []string{"/."}
		}
		for _, g := range guards {
			for _, q := range qs {
				noFrag := s.Protocol + a + g + s.Pathname + q
				if s.HrefNoFrag == noFrag {
					composedNoFrag = true
				}
				for _, f := range fs {
					if s.Href == noFrag+f {
						composed = true
					}
				}
			}
		}
	}
	if !composed {
		fail("href %q is not protocol %q + [//userinfo@host %q] + pathname %q + search %q + hash %q", s.Href, s.Protocol, userinfo+s.Host, s.Pathname, s.Search, s.Hash)
	}
	if !composedNoFrag {
		fail("Href(true) %q is not the composition without the fragment", s.HrefNoFrag)
	}
	if s.Str != s.Href {
		fail("String() %q != Href(false) %q", s.Str, s.Href)
	}
	return bad
}

// execConfig: the composition clauses under a sampled parser configuration (incl. host hooks
// that read the URL they are given), after parse and after every step of a short history.
func (c04) execConfig(ctx *core.Ctx, cs *core.Case) {
	p := buildParser(cs.Config)
	input, base := string(cs.Input), string(cs.Base)
	u, err, pan := parseImpl(ctx, p, input, base, cs.HasBase && base != "", false)
	if pan != nil || err != nil || u == nil {
		ctx.Count("start_rejected")
		return
	}
	ctx.Nontrivial()
	check := func(where string) bool {
		var s obs.Snap
		if pan := ctx.Call(64, func() { s = obs.Take(u) }); pan != nil {
			return false
		}
		ctx.Count("states_option_configs")
		if bad := checkComposition(s); len(bad) > 0 {
			ctx.Violate("the serialization is not the composition of the getters under a parser-option configuration: "+invariantClass(bad[0]), "composition holds", s.Href,
				where+" options "+strings.Join(cs.Config, ",")+": "+strings.Join(bad, " | "))
			return false
		}
		return true
	}
	if !check("after parse") {
		return
	}
	for i, op := range cs.Ops {
		if pan := ctx.Call(opBytes(op)+len(input)+len(base)+256, func() { u = applyOp(u, op) }); pan != nil {
			return
		}
		if !check(fmt.Sprintf("after step %d %s", i, clipS(op.String(), 100))) {
			return
		}
	}
}

func (c04) Exec(ctx *core.Ctx, cs *core.Case) {
	if cs.Check == "option-config" {
		c04{}.execConfig(ctx, cs)
		return
	}
	walkStates(ctx, cs, func(u *url.Url, where string) bool {
		var s obs.Snap
		if pan := ctx.Call(64, func() { s = obs.Take(u) }); pan != nil {
			ctx.Violate("getter panics", "returns", pan.String(), where)
			return false
		}
		if bad := checkInvariants(s); len(bad) > 0 {
			ctx.Violate("structural invariant violated: "+invariantClass(bad[0]), "invariant holds", s.Href, where+": "+strings.Join(bad, " | "))
			return false
		}
		return true
	})
}

// invariantClass strips the quoted details so that violations group by invariant.
var quotedRe = regexp.MustCompile(`"(?:[^"\\]|\\.)*"|'(?:[^'\\]|\\.)*'|0x[0-9A-F]{2}`)

func invariantClass(msg string) string { return quotedRe.ReplaceAllString(msg, "_") }
