package mon

import (
	"regexp"
	"strings"

	"github.com/nlnwa/whatwg-url/url"

	"verif/core"
	"verif/gen"
	"verif/obs"
	"verif/refmodel"
)

// C06 — reference resolution obeys the laws users rely on (relations between calls, no model).
type c06 struct{}

func init() { core.Register(c06{}) }

func (c06) ID() string { return "C06" }

func (c06) Info() core.Info {
	return core.Info{
		Rule: "relational monitor over (base, reference) pairs; bases from a pool of 70 covering special, file (with/without host and drive letter), non-special with host, " +
			"path-only and opaque-path bases (with/without query, fragment, credentials, port), 25 % mutated; laws: L1 url.ParseRef, Parser.ParseRef and Parse(base).Parse(ref) agree " +
			"(error-ness and full snapshot); L2 the serialization of any parsed u resolves to u against any base; L3 empty reference = base without fragment (fails on an opaque base); " +
			"L4 '#f' changes only the fragment, on every base, and every other scheme-less reference fails on an opaque base; L5 '?q' replaces the query, drops the fragment, keeps " +
			"scheme, credentials, host, port, path; L6 a scheme-less reference yields the base's scheme. f, q and references are W-mutate/grammar strings. (*Url).Parse is exercised on base VALUES used before " +
			"in five ways (fresh; SearchParams() read; getters + Clone read; earlier resolutions; earlier results mutated by their owner). " +
			"Non-trivial: the base parses and the law's premise holds; distinct by (law, base, reference).",
		Assumptions: []string{"'scheme-less' = does not match ^[A-Za-z][A-Za-z0-9+.-]*: after trimming C0/space and removing tab/newline"},
		MinDistinct: map[string]int{"quick": 100000, "thorough": 1000000},
	}
}

func (c06) Plan(tier string) core.Plan { return core.Plan{Shards: 16} }

var lawNames = []string{"L1", "L2", "L3", "L4", "L4-opaque", "L5", "L6", "L1-config"}

func (m c06) Run(ctx *core.Ctx) {
	r := ctx.Rng
	n := split(tierN(ctx.Tier, 2_000_000, 60_000_000), ctx.Shard, ctx.NShards)
	for i := int64(0); i < n; i++ {
		law := lawNames[int(i)%len(lawNames)]
		base := gen.ParseableBase(r)
		if r.IntN(4) == 0 {
			base = gen.Mutate(r, base)
		}
		if r.IntN(10) == 0 {
			base = gen.Input(r)
		}
		var ref string
		switch law {
		case "L1", "L6", "L1-config":
			ref = gen.Reference(r)
		case "L2":
			ref = gen.Input(r) // the URL u to be parsed first
		case "L3":
			ref = ""
		case "L4":
			ref = "#" + gen.QueryOrFragment(r)
			if r.IntN(3) == 0 {
				ref = "#" + gen.Mutate(r, gen.QueryOrFragment(r))
			}
		case "L4-opaque":
			base = gen.Pick(r, []string{"a:", "a:p", "a:p/q", "a:p?q#f", "a:p  ", "mailto:x@y", "data:,x", "a:#", "a:?", "about:blank", "javascript:x", "a:p ?q#f"})
			ref = gen.Reference(r)
		case "L5":
			ref = "?" + strings.ReplaceAll(gen.QueryOrFragment(r), "#", "")
			if r.IntN(3) == 0 {
				ref = "?" + strings.ReplaceAll(gen.Mutate(r, gen.QueryOrFragment(r)), "#", "")
			}
		}
		// N: how the base VALUE is used before resolving through (*Url).Parse:
		// 0 fresh, 1 SearchParams() read, 2 getters + Clone read, 3 an earlier resolution,
		// 4 earlier results mutated by their owner
		cs := &core.Case{Check: law, Base: core.S(base), HasBase: true, Input: core.S(ref), N: r.IntN(5)}
		if law == "L1-config" {
			// parser options only: a canonicalization profile post-processes the result of ITS ParseRef, while
			// the URL value it returns resolves with the plain parser - those two legitimately differ
			cs.Config = nil
			for _, o := range randomConfig(r) {
				if _, isCanon := optionForIsCanon(o); !isCanon {
					cs.Config = append(cs.Config, o)
				}
			}
			if len(cs.Config) == 0 {
				cs.Config = []string{"collapse"}
			}
			if r.IntN(3) == 0 {
				cs.Base = core.S(gen.Pick(r, []string{"http://h//a//b/", "gopher://h:70/x/y", "http://a b/c", "http://h/%/x", "file:///C|/a/b", "http://ex<ample/x/"}))
			}
		}
		ctx.Begin(cs)
		m.Exec(ctx, cs)
	}
}

var schemePrefixRe = regexp.MustCompile(`^[A-Za-z][A-Za-z0-9+.\-]*:`)

// cleaned: the reference after trimming C0/space and removing tab/newline (scalar reading).
func cleaned(ref string) string {
	rs := []rune(ref)
	s, e := 0, len(rs)
	for s < e && refmodel.IsC0ControlOrSpace(rs[s]) {
		s++
	}
	for e > s && refmodel.IsC0ControlOrSpace(rs[e-1]) {
		e--
	}
	var sb strings.Builder
	for _, r := range rs[s:e] {
		if !refmodel.IsTabOrNewline(r) {
			sb.WriteRune(r)
		}
	}
	return sb.String()
}

// resolveValue resolves ref through (*Url).Parse on a base VALUE that was used (read-only)
// before, in the way the case's N says.
func resolveValue(ctx *core.Ctx, base, ref string, n int) (u *url.Url, err error, pan *core.Panic) {
	pan = ctx.Call(len(base)+len(ref)+256, func() {
		var b *url.Url
		b, err = url.Parse(base)
		if err != nil || b == nil {
			return
		}
		switch n {
		case 1:
			sp := b.SearchParams()
			_ = sp.String()
			_ = sp.Has("a")
		case 2:
			_ = obs.Take(b)
			_ = b.Clone().Href(false)
		case 3:
			_, _ = b.Parse("x?y#z")
			_, _ = b.Parse("#f")
		case 4:
			// an earlier RESULT was mutated by its owner: the base value must not notice
			for _, first := range []string{"#one", "", "?q"} {
				if r1, e := b.Parse(first); e == nil && r1 != nil {
					r1.SetHash("")
					r1.SetSearch("")
					r1.SetPathname("/zz")
					r1.SearchParams().Append("z", "1")
				}
			}
		}
		u, err = b.Parse(ref)
	})
	return
}

func (c06) Exec(ctx *core.Ctx, cs *core.Case) {
	base, ref := string(cs.Base), string(cs.Input)
	if base == "" {
		return
	}
	if (len(base)+len(ref))%8 == 3 {
		interfereCase(ctx, ref, base, true) // parsers with other configurations resolved the same pair just before
	}
	b, berr, pan := parseImpl(ctx, nil, base, "", false, false)
	if pan != nil {
		ctx.Count("base_panics(C02)")
		return
	}
	baseOK := berr == nil && b != nil
	var bs obs.Snap
	if baseOK {
		bs = obs.Take(b)
	}
	law := cs.Check
	ctx.Count("law:" + law)
	if law == "L1-config" {
		// for ANY parser value: p.ParseRef(base, ref) == p.Parse(base) followed by .Parse(ref)
		p := buildParser(cs.Config)
		u1, e1, p1 := parseImpl(ctx, p, ref, base, true, false)
		u2, e2, p2 := parseImpl(ctx, p, ref, base, true, true)
		if p1 != nil || p2 != nil {
			ctx.Count("panic(C02)")
			return
		}
		ok1, ok2 := e1 == nil && u1 != nil, e2 == nil && u2 != nil
		if ok1 || ok2 {
			ctx.Nontrivial()
		}
		if ok1 != ok2 {
			// a profile's default-scheme retry applies to ParseRef's base only: not a disagreement of the parser
			for _, c := range cs.Config {
				if strings.HasPrefix(c, "defaultscheme") {
					return
				}
			}
			ctx.Violate("L1: Parser.ParseRef and Parser.Parse(base).Parse(ref) disagree on success for a configured parser", ok1, ok2, strings.Join(cs.Config, ","))
			return
		}
		if ok1 {
			if s1, s2 := obs.Take(u1), obs.Take(u2); s1 != s2 {
				ctx.Violate("L1: Parser.ParseRef and Parser.Parse(base).Parse(ref) disagree for a configured parser", s1.Href, s2.Href, strings.Join(cs.Config, ",")+": "+strings.Join(obs.Diff(s1, s2), "; "))
			}
		}
		return
	}
	switch law {
	case "L1":
		u1, e1, p1 := parseImpl(ctx, nil, ref, base, true, false)
		var u2 *url.Url
		var e2 error
		p2 := ctx.Call(len(ref)+len(base), func() { u2, e2 = url.NewParser().ParseRef(base, ref) })
		u3, e3, p3 := resolveValue(ctx, base, ref, cs.N)
		if p1 != nil || p2 != nil || p3 != nil {
			ctx.Violate("L1: a resolution entry point panics", "returns", core.Panic{}.Value+p1.String()+p2.String()+p3.String(), "")
			return
		}
		ok1, ok2, ok3 := e1 == nil && u1 != nil, e2 == nil && u2 != nil, e3 == nil && u3 != nil
		if baseOK {
			ctx.Nontrivial()
		}
		if ok1 != ok2 || ok1 != ok3 {
			ctx.Violate("L1: the three ways to resolve a reference disagree on success", ok1, []bool{ok2, ok3}, "url.ParseRef vs Parser.ParseRef vs (*Url).Parse")
			return
		}
		if !ok1 {
			return
		}
		s1, s2, s3 := obs.Take(u1), obs.Take(u2), obs.Take(u3)
		if s1 != s2 {
			ctx.Violate("L1: url.ParseRef and Parser.ParseRef disagree", s1.Href, s2.Href, strings.Join(obs.Diff(s1, s2), "; "))
		} else if s1 != s3 {
			ctx.Violate("L1: url.ParseRef and (*Url).Parse disagree", s1.Href, s3.Href, strings.Join(obs.Diff(s1, s3), "; "))
		}
	case "L2":
		u, err, p := parseImpl(ctx, nil, ref, "", false, false)
		if p != nil || err != nil || u == nil || !baseOK {
			return
		}
		ctx.Nontrivial()
		us := obs.Take(u)
		r2, err2, p2 := parseImpl(ctx, nil, us.Href, base, true, false)
		if p2 != nil {
			ctx.Violate("L2: resolving a serialization panics", us.Href, p2.String(), "")
			return
		}
		if err2 != nil || r2 == nil {
			ctx.ViolateV(&core.Violation{Class: "L2: the serialization of a parsed URL does not resolve against a base", Expected: us.Href, Observed: errString(err2), Note: "base " + bs.Href})
			return
		}
		if rs := obs.Take(r2); rs != us {
			ctx.Violate("L2: the serialization of a parsed URL resolves to a different URL", us.Href, rs.Href, "base "+bs.Href+": "+strings.Join(obs.Diff(us, rs), "; "))
		}
	case "L3":
		if !baseOK {
			return
		}
		ctx.Nontrivial()
		r, err, p := resolveValue(ctx, base, "", cs.N)
		if p != nil {
			ctx.Violate("L3: resolving the empty reference panics", "", p.String(), "")
			return
		}
		if bs.Opaque {
			if err == nil {
				ctx.Violate("L3: the empty reference is accepted by a base with an opaque path", "failure", r.Href(false), "")
			}
			return
		}
		if err != nil || r == nil {
			ctx.Violate("L3: the empty reference fails on a base with a non-opaque path", bs.HrefNoFrag, errString(err), "")
			return
		}
		rs := obs.Take(r)
		want := bs
		want.Hash, want.Fragment = "", ""
		want.Href, want.Str = bs.HrefNoFrag, bs.HrefNoFrag
		if rs != want {
			ctx.Violate("L3: the empty reference does not yield the base without its fragment", want.Href, rs.Href, strings.Join(obs.Diff(want, rs), "; "))
		}
	case "L4":
		if !baseOK {
			return
		}
		ctx.Nontrivial()
		r, err, p := resolveValue(ctx, base, ref, cs.N)
		if p != nil {
			ctx.Violate("L4: resolving a fragment-only reference panics", "", p.String(), "")
			return
		}
		if err != nil || r == nil {
			ctx.Violate("L4: a '#f' reference is rejected", "success", errString(err), "base "+bs.Href)
			return
		}
		rs := obs.Take(r)
		want := rs
		want.Hash, want.Fragment, want.Href, want.Str = bs.Hash, bs.Fragment, bs.Href, bs.Str
		if want != bs || rs.HrefNoFrag != bs.HrefNoFrag {
			ctx.Violate("L4: a '#f' reference changed something else than the fragment", bs.HrefNoFrag, rs.HrefNoFrag, strings.Join(obs.Diff(bs, want), "; "))
		}
	case "L4-opaque":
		if !baseOK || !bs.Opaque {
			return
		}
		c := cleaned(ref)
		if schemePrefixRe.MatchString(c) || strings.HasPrefix(c, "#") {
			ctx.Count("L4-opaque:premise_false")
			return
		}
		ctx.Nontrivial()
		r, err, p := parseImpl(ctx, nil, ref, base, true, false)
		if p != nil {
			ctx.Violate("L4: resolving against an opaque base panics", "", p.String(), "")
			return
		}
		if err == nil && r != nil {
			ctx.Violate("L4: a base with an opaque path accepted a relative reference that is not '#f'", "failure", r.Href(false), "")
		}
	case "L5":
		if !baseOK || bs.Opaque {
			return
		}
		ctx.Nontrivial()
		r, err, p := resolveValue(ctx, base, ref, cs.N)
		if p != nil {
			ctx.Violate("L5: resolving a query-only reference panics", "", p.String(), "")
			return
		}
		if err != nil || r == nil {
			ctx.Violate("L5: a '?q' reference is rejected", "success", errString(err), "base "+bs.Href)
			return
		}
		rs := obs.Take(r)
		if rs.Protocol != bs.Protocol || rs.Username != bs.Username || rs.Password != bs.Password || rs.Host != bs.Host || rs.Pathname != bs.Pathname || rs.Hash != "" ||
			!(rs.Search == "" || strings.HasPrefix(rs.Search, "?")) {
			ctx.Violate("L5: a '?q' reference did not keep scheme, credentials, host, port and path (or kept the fragment)", bs.Href, rs.Href, strings.Join(obs.Diff(bs, rs), "; "))
		}
		if c := cleaned(ref); len(c) > 1 && rs.Search == "" {
			ctx.Violate("L5: a non-empty '?q' reference left no query", c, rs.Href, "")
		}
	case "L6":
		if !baseOK {
			return
		}
		c := cleaned(ref)
		if schemePrefixRe.MatchString(c) {
			ctx.Count("L6:premise_false")
			return
		}
		r, err, p := parseImpl(ctx, nil, ref, base, true, false)
		if p != nil {
			ctx.Violate("L6: resolving a scheme-less reference panics", "", p.String(), "")
			return
		}
		if err != nil || r == nil {
			ctx.Count("L6:rejected")
			return
		}
		ctx.Nontrivial()
		if r.Protocol() != bs.Protocol {
			ctx.Violate("L6: a scheme-less reference did not yield the base's scheme", bs.Protocol, r.Protocol(), r.Href(false))
		}
	}
}
