package mon

import (
	"math/big"
	"strconv"
	"strings"

	"verif/core"
	"verif/gen"
	"verif/obs"
	"verif/refmodel"
)

// C07 — IPv4 hosts: recognised exactly per the standard and canonicalised by value.
type c07 struct{}

func init() { core.Register(c07{}) }

func (c07) ID() string { return "C07" }

const c07Alphabet = "0178 9afxX.+-g"

var c07Alpha = strings.ReplaceAll(c07Alphabet, " ", "")

// "foo" (opaque host) sits between special schemes: the same host text is parsed special -> non-special -> special back to back
var c07Schemes = []string{"http", "foo", "https", "ftp", "ws", "wss", "file"}

func (c07) Info() core.Info {
	return core.Info{
		Rule: "host string H placed in scheme://H/ for the 6 special schemes and for foo:// (opaque host); expected result from the reference " +
			"model plus an independent property-level oracle (ends-in-a-number on the last non-empty label, math/big value of the parts, four octets). " +
			"(a) bounded-exhaustive: every H of length <= L over '0 1 7 8 9 a f x X . + - g' (L=5 quick, 6 thorough) x 7 schemes; " +
			"(b) generated dotted forms (1-6 parts, dec/hex/octal, signs, empty parts, boundary values), also percent-encoded and in fullwidth spelling; " +
			"(c) random printable-ASCII hosts. Non-trivial: H is non-empty and the URL reached the host parser (model accepts, or rejects in the host); distinct by (scheme, H).",
		Assumptions: []string{"reference model = SPEC-NOTES.md §C", "fullwidth/percent-encoded spellings rely on the IDNA mapping as given"},
		MinDistinct: map[string]int{"quick": 100000, "thorough": 1000000},
		NeedsModel:  true,
	}
}

func (c07) Plan(tier string) core.Plan { return core.Plan{Shards: 16} }

func fullwidth(s string) string {
	var sb strings.Builder
	for _, r := range s {
		switch {
		case r >= '!' && r <= '~' && r != '.':
			sb.WriteRune(r - '!' + 0xFF01)
		case r == '.':
			sb.WriteRune(0xFF0E)
		default:
			sb.WriteRune(r)
		}
	}
	return sb.String()
}

func (m c07) Run(ctx *core.Ctx) {
	L := 5
	if ctx.Tier == "thorough" {
		L = 6
	}
	total := gen.SmallCount(len(c07Alpha), L)
	for idx := int64(ctx.Shard); idx < total; idx += int64(ctx.NShards) {
		h := gen.SmallString(c07Alpha, idx)
		for _, s := range c07Schemes {
			cs := &core.Case{Check: "exhaustive", Input: core.S(h), Config: []string{s}}
			ctx.Begin(cs)
			m.Exec(ctx, cs)
		}
	}
	n := split(tierN(ctx.Tier, 1_000_000, 12_000_000), ctx.Shard, ctx.NShards)
	r := ctx.Rng
	for i := int64(0); i < n; i++ {
		var h string
		check := "generated"
		switch r.IntN(10) {
		case 0, 1, 2, 3, 4:
			h = gen.IPv4Host(r)
		case 5:
			h = gen.PercentEncodeSome(r, gen.IPv4Host(r), 0.5)
			check = "percent-encoded"
		case 6:
			h = fullwidth(gen.IPv4Host(r))
			check = "fullwidth"
		case 7:
			// boundary values around powers of 256 in random radix
			parts := 1 + r.IntN(4)
			ps := make([]string, parts)
			for j := range ps {
				ps[j] = strconv.Itoa(r.IntN(256))
			}
			e := int64(1) << (8 * uint(5-parts))
			v := e + int64(r.IntN(3)) - 1
			switch r.IntN(3) {
			case 0:
				ps[parts-1] = strconv.FormatInt(v, 10)
			case 1:
				ps[parts-1] = "0x" + strconv.FormatInt(v, 16)
			default:
				ps[parts-1] = "0" + strconv.FormatInt(v, 8)
			}
			h = strings.Join(ps, ".")
		case 8:
			// random printable ASCII
			l := 1 + r.IntN(8)
			b := make([]byte, l)
			for j := range b {
				b[j] = byte(0x21 + r.IntN(0x5e))
			}
			h = string(b)
			check = "ascii"
		default:
			h = gen.Mutate(r, gen.IPv4Host(r))
			check = "mutated"
		}
		cs := &core.Case{Check: check, Input: core.S(h), Config: []string{gen.Pick(r, c07Schemes)}}
		ctx.Begin(cs)
		m.Exec(ctx, cs)
	}
}

// plainHost: no character that would end or restructure the host inside scheme://H/.
func plainHost(h string) bool {
	if h == "" {
		return false
	}
	for i := 0; i < len(h); i++ {
		c := h[i]
		if c <= 0x20 || c >= 0x7f || strings.IndexByte("/\\?#@:[]%", c) >= 0 {
			return false
		}
	}
	return true
}

// independentIPv4 is the property-level oracle, written separately from the model:
// ok=false means "must be rejected"; isNum=false means "not an IPv4 host at all".
func independentIPv4(h string) (isNum bool, ok bool, dotted string) {
	h = strings.ToLower(h)
	parts := strings.Split(h, ".")
	if len(parts) > 1 && parts[len(parts)-1] == "" {
		parts = parts[:len(parts)-1]
	}
	last := parts[len(parts)-1]
	num := func(s string) (*big.Int, bool) {
		if s == "" {
			return nil, false
		}
		base := 10
		if len(s) >= 2 && s[:2] == "0x" {
			s, base = s[2:], 16
		} else if len(s) >= 2 && s[0] == '0' {
			s, base = s[1:], 8
		}
		if s == "" {
			return new(big.Int), true
		}
		digits := "0123456789abcdef"[:base]
		for i := 0; i < len(s); i++ {
			if strings.IndexByte(digits, s[i]) < 0 {
				return nil, false
			}
		}
		v, good := new(big.Int).SetString(s, base)
		return v, good
	}
	allDigits := last != ""
	for i := 0; i < len(last); i++ {
		if last[i] < '0' || last[i] > '9' {
			allDigits = false
		}
	}
	if _, good := num(last); !good && !allDigits {
		return false, false, ""
	}
	if len(parts) > 4 {
		return true, false, ""
	}
	total := new(big.Int)
	for i, p := range parts {
		v, good := num(p)
		if !good {
			return true, false, ""
		}
		if i < len(parts)-1 {
			if v.Cmp(big.NewInt(255)) > 0 {
				return true, false, ""
			}
			total.Add(total, new(big.Int).Lsh(v, uint(8*(3-i))))
		} else {
			limit := new(big.Int).Lsh(big.NewInt(1), uint(8*(5-len(parts))))
			if v.Cmp(limit) >= 0 {
				return true, false, ""
			}
			total.Add(total, v)
		}
	}
	x := total.Uint64()
	return true, true, strconv.Itoa(int(x>>24&255)) + "." + strconv.Itoa(int(x>>16&255)) + "." + strconv.Itoa(int(x>>8&255)) + "." + strconv.Itoa(int(x&255))
}

func (c07) Exec(ctx *core.Ctx, cs *core.Case) {
	h := string(cs.Input)
	scheme := "http"
	if len(cs.Config) > 0 {
		scheme = cs.Config[0]
	}
	input := scheme + "://" + h + "/"
	mu := M.Parse(input, nil)
	u, err, pan := parseImpl(ctx, nil, input, "", false, false)
	if pan != nil {
		ctx.Nontrivial()
		ctx.Violate("panic while parsing an IPv4-like host", describeModel(mu), pan.String(), input)
		return
	}
	ok := err == nil && u != nil
	if h != "" {
		ctx.Nontrivial()
	}
	if ok != (mu != nil) {
		if ok {
			ctx.Violate("host accepted, the standard rejects it", "failure", u.Hostname(), input)
		} else {
			ctx.Violate("host rejected, the standard accepts it", mu.Hostname(), errString(err), input)
		}
		return
	}
	if ok {
		want, got := mu.Ten(), obs.TakeTen(u)
		if want != got {
			ctx.Violate("host treated differently from the standard", want[5], got[5], input+": "+strings.Join(obs.DiffTen(refmodel.TenNames, want, got), "; "))
			return
		}
	}
	// independent property-level oracle on plain ASCII hosts
	fileQuirk := scheme == "file" && (strings.EqualFold(h, "localhost") ||
		(len(h) == 2 && h[1] == '|' && ((h[0] >= 'a' && h[0] <= 'z') || (h[0] >= 'A' && h[0] <= 'Z'))))
	if !plainHost(h) || strings.Contains(strings.ToLower(h), "xn--") || fileQuirk {
		ctx.Count("oracle_model_only")
		return
	}
	if scheme == "foo" {
		ctx.Count("opaque_host")
		if !ok {
			// plain hosts contain no forbidden host code point except '<' '>' '^' '|'
			if !strings.ContainsAny(h, "<>^|") {
				ctx.Violate("opaque host rejected", h, errString(err), input)
			}
			return
		}
		if u.Hostname() != h {
			ctx.Violate("host of a non-special URL was reinterpreted", h, u.Hostname(), input)
		}
		return
	}
	isNum, good, dotted := independentIPv4(h)
	switch {
	case !isNum:
		ctx.Count("not_a_number")
		if ok && u.Hostname() != strings.ToLower(h) {
			ctx.Violate("host that does not end in a number was changed", strings.ToLower(h), u.Hostname(), input)
		}
	case !good:
		ctx.Count("number_rejected")
		if ok {
			ctx.Violate("invalid IPv4 host accepted", "failure", u.Hostname(), input)
		}
	default:
		ctx.Count("number_accepted")
		if !ok {
			ctx.Violate("valid IPv4 host rejected", dotted, errString(err), input)
		} else if u.Hostname() != dotted {
			ctx.Violate("IPv4 host has the wrong value", dotted, u.Hostname(), input)
		}
	}
}
