package mon

import (
	"math/rand/v2"
	"regexp"
	"sort"
	"strings"

	"golang.org/x/text/encoding/charmap"

	"github.com/nlnwa/whatwg-url/canonicalizer"
	"github.com/nlnwa/whatwg-url/url"

	"verif/gen"
)

// W-config (DESIGN.md §4): the public options by name.  A configuration is a list of
// names; buildParser turns it into a parser value.

var switchOptions = []string{"report", "failonerr", "lax", "collapse", "acceptinvalid", "singlepercent",
	"allownonbasepath", "skipdrive", "skiptrailingslash", "skipequals"}

var argOptions = map[string][]string{
	"prehost":   {"trim", "identity", "reads", "empty", "gsb", "semantic"},
	"posthost":  {"trim", "identity", "reads", "empty"},
	"special":   {"gopher", "nofile", "empty", "onlyfile", "long"},
	"encoding":  {"latin1", "win1252"},
	"pathset":   {"lax", "c0", "pct", "tilde", "delims"},
	"queryset":  {"lax", "c0", "pct", "tilde", "delims"},
	"squeryset": {"lax", "c0", "pct", "tilde", "delims"},
	"fragset":   {"lax", "c0", "pct", "tilde", "delims"},
	"sfragset":  {"lax", "c0", "pct", "tilde", "delims"},
}

var argOptionNames = func() []string {
	var n []string
	for k := range argOptions {
		n = append(n, k)
	}
	sort.Strings(n)
	return n
}()

var canonOptions = []string{"removeuserinfo", "removeport", "removefragment", "repeateddecode", "defaultscheme:http", "defaultscheme:a", "defaultscheme:1x", "defaultscheme:a b", "defaultscheme:file", "sort:keys", "sort:param"}

var profileNames = []string{"profile:WhatWg", "profile:WhatWgSortQuery", "profile:GoogleSafeBrowsing", "profile:Semantic"}

var dotsRe = regexp.MustCompile(`\.\.+`)

func encodeSetArg(arg string) *url.PercentEncodeSet {
	switch arg {
	case "lax":
		return canonicalizer.LaxQueryPercentEncodeSet
	case "c0":
		return url.C0PercentEncodeSet
	case "pct":
		return url.PathPercentEncodeSet.Set('%')
	case "tilde":
		return url.QueryPercentEncodeSet.Set('~', 'x')
	case "delims":
		// characters that mean something elsewhere in the parser (drive letters, dot segments, delimiters)
		return url.PathPercentEncodeSet.Set(':', '|', '.', '@', '=', '&', '+', ';', '!', '$', '\'', '*')
	}
	return url.PathPercentEncodeSet
}

func specialArg(arg string) map[string]string {
	switch arg {
	case "gopher":
		return map[string]string{"ftp": "21", "file": "", "http": "80", "https": "443", "ws": "80", "wss": "443", "gopher": "70"}
	case "nofile":
		return map[string]string{"ftp": "21", "http": "80", "https": "443", "ws": "80", "wss": "443"}
	case "onlyfile":
		return map[string]string{"file": ""}
	case "long":
		// names shorter and longer than any standard special scheme, with every legal kind of character
		return map[string]string{"ftp": "21", "file": "", "http": "80", "https": "443", "ws": "80", "wss": "443", "x": "1", "postgres": "5432", "a-very.long+scheme-name9": "65535"}
	case "http8080":
		return map[string]string{"ftp": "21", "file": "", "http": "8080", "https": "443", "ws": "80", "wss": "443", "gopher": "7070"}
	}
	return map[string]string{}
}

func hostFuncArg(arg string) func(*url.Url, string) string {
	switch arg {
	case "trim":
		return func(_ *url.Url, h string) string { return strings.Trim(h, ".") }
	case "empty":
		return func(_ *url.Url, h string) string { return "" }
	case "reads":
		// a hook may look at the URL it is given; it returns the host unchanged
		return func(u *url.Url, h string) string {
			if u != nil {
				_ = u.String()
				_ = u.Hostname()
				_ = u.Port()
			}
			return h
		}
	case "gsb":
		return func(_ *url.Url, h string) string { return dotsRe.ReplaceAllString(strings.Trim(h, "."), ".") }
	case "semantic":
		return func(_ *url.Url, h string) string {
			if h != "" {
				h = dotsRe.ReplaceAllString(strings.Trim(h, "."), ".")
				if h == "" {
					h = "0.0.0.0"
				}
			}
			return h
		}
	}
	return func(_ *url.Url, h string) string { return h }
}

func optionFor(name string) (url.ParserOption, bool) {
	key, arg, _ := strings.Cut(name, ":")
	switch key {
	case "report":
		return url.WithReportValidationErrors(), false
	case "failonerr":
		return url.WithFailOnValidationError(), false
	case "lax":
		return url.WithLaxHostParsing(), false
	case "collapse":
		return url.WithCollapseConsecutiveSlashes(), false
	case "acceptinvalid":
		return url.WithAcceptInvalidCodepoints(), false
	case "singlepercent":
		return url.WithPercentEncodeSinglePercentSign(), false
	case "allownonbasepath":
		return url.WithAllowSettingPathForNonBaseUrl(), false
	case "skipdrive":
		return url.WithSkipWindowsDriveLetterNormalization(), false
	case "skiptrailingslash":
		return url.WithSkipTrailingSlashNormalization(), false
	case "skipequals":
		return url.WithSkipEqualsForEmptySearchParamsValue(), false
	case "prehost":
		return url.WithPreParseHostFunc(hostFuncArg(arg)), false
	case "posthost":
		return url.WithPostParseHostFunc(hostFuncArg(arg)), false
	case "special":
		return url.WithSpecialSchemes(specialArg(arg)), false
	case "encoding":
		if arg == "win1252" {
			return url.WithEncodingOverride(charmap.Windows1252), false
		}
		return url.WithEncodingOverride(charmap.ISO8859_1), false
	case "pathset":
		if arg == "lax" {
			return url.WithPathPercentEncodeSet(canonicalizer.LaxPathPercentEncodeSet), false
		}
		return url.WithPathPercentEncodeSet(encodeSetArg(arg)), false
	case "queryset":
		return url.WithQueryPercentEncodeSet(encodeSetArg(arg)), false
	case "squeryset":
		return url.WithSpecialQueryPercentEncodeSet(encodeSetArg(arg)), false
	case "fragset":
		return url.WithFragmentPathPercentEncodeSet(encodeSetArg(arg)), false
	case "sfragset":
		return url.WithSpecialFragmentPathPercentEncodeSet(encodeSetArg(arg)), false
	case "removeuserinfo":
		return canonicalizer.WithRemoveUserInfo(), true
	case "removeport":
		return canonicalizer.WithRemovePort(), true
	case "removefragment":
		return canonicalizer.WithRemoveFragment(), true
	case "repeateddecode":
		return canonicalizer.WithRepeatedPercentDecoding(), true
	case "defaultscheme":
		return canonicalizer.WithDefaultScheme(arg), true
	case "sort":
		// the documented numeric values ("1 = sort keys ..., 2 = sort key,value") and the named constants
		switch arg {
		case "param":
			return canonicalizer.WithSortQuery(canonicalizer.SortParameter), true
		case "param#":
			return canonicalizer.WithSortQuery(2), true
		case "keys#":
			return canonicalizer.WithSortQuery(1), true
		}
		return canonicalizer.WithSortQuery(canonicalizer.SortKeys), true
	}
	panic("mon: unknown option " + name)
}

// buildParser builds the parser for a configuration.  "canon" forces canonicalizer.New;
// a "profile:X" entry selects a predefined profile (other entries are then ignored).
func buildParser(config []string) url.Parser {
	var opts, canonOpts, plainOpts []url.ParserOption
	canon := false
	numeric, shuffled := false, false
	for _, name := range config {
		numeric = numeric || name == "numeric"
		shuffled = shuffled || name == "shuffled"
	}
	if shuffled {
		// options set independent fields, so their order must not matter: a deterministic
		// permutation derived from the names themselves
		config = append([]string(nil), config...)
		h := uint64(1469598103934665603)
		for _, name := range config {
			for i := 0; i < len(name); i++ {
				h = (h ^ uint64(name[i])) * 1099511628211
			}
		}
		orig := append([]string(nil), config...)
		for i := len(config) - 1; i > 0; i-- {
			h = h*6364136223846793005 + 1442695040888963407
			j := int((h >> 33) % uint64(i+1))
			config[i], config[j] = config[j], config[i]
		}
		// entries with the same key (two default schemes, two sort modes) keep their relative
		// order: for those the last one wins, by design
		keyOf := func(name string) string { k, _, _ := strings.Cut(name, ":"); return k }
		next := map[string][]string{}
		for _, name := range orig {
			next[keyOf(name)] = append(next[keyOf(name)], name)
		}
		for i, name := range config {
			k := keyOf(name)
			config[i] = next[k][0]
			next[k] = next[k][1:]
		}
	}
	for _, name := range config {
		if numeric && (name == "sort:keys" || name == "sort:param") {
			name += "#"
		}
		switch name {
		case "numeric", "shuffled":
			continue
		case "canon":
			canon = true
			continue
		case "profile:WhatWg":
			return canonicalizer.WhatWg
		case "profile:WhatWgSortQuery":
			return canonicalizer.WhatWgSortQuery
		case "profile:GoogleSafeBrowsing":
			return canonicalizer.GoogleSafeBrowsing
		case "profile:Semantic":
			return canonicalizer.Semantic
		case "default":
			continue
		}
		o, isCanon := optionFor(name)
		opts = append(opts, o)
		canon = canon || isCanon
		if isCanon {
			canonOpts = append(canonOpts, o)
		} else {
			plainOpts = append(plainOpts, o)
		}
	}
	// For every other configuration (by the hash of its names) the caller's option slice is used
	// twice and the parser built from the REUSED slice is the one that is judged: a constructor
	// must leave the slice it is handed as it found it (a caller that keeps a base list of
	// options and builds several parsers from it is ordinary use).
	h := uint32(2166136261)
	for _, name := range config {
		for i := 0; i < len(name); i++ {
			h = (h ^ uint32(name[i])) * 16777619
		}
	}
	reuse := len(opts) > 1 && h&1 == 1
	if reuse && h&2 == 2 {
		// the canonicalizer's options first, the parser's after them (they configure disjoint things; the
		// relative order within each group, which decides between two entries of the same key, is kept)
		opts = append(append(make([]url.ParserOption, 0, len(opts)+3), canonOpts...), plainOpts...)
	}
	if canon {
		if reuse {
			_ = canonicalizer.New(opts...)
		}
		return canonicalizer.New(opts...)
	}
	if reuse {
		_ = url.NewParser(opts...)
	}
	return url.NewParser(opts...)
}

// randomConfig samples a configuration over the full 25-option space.
func randomConfig(r *rand.Rand) []string {
	if r.IntN(8) == 0 {
		return []string{gen.Pick(r, profileNames)}
	}
	var cfg []string
	density := []float64{0.1, 0.3, 0.5, 0.8}[r.IntN(4)]
	for _, s := range switchOptions {
		if r.Float64() < density {
			cfg = append(cfg, s)
		}
	}
	for _, k := range argOptionNames {
		if r.Float64() < density*0.6 {
			cfg = append(cfg, k+":"+gen.Pick(r, argOptions[k]))
		}
	}
	if r.IntN(2) == 0 {
		for _, c := range canonOptions {
			if r.Float64() < density {
				cfg = append(cfg, c)
			}
		}
		if r.IntN(3) == 0 {
			cfg = append(cfg, "canon")
		}
	}
	if len(cfg) == 0 {
		cfg = []string{"default"}
	}
	if r.IntN(3) == 0 {
		cfg = append(cfg, "shuffled")
	}
	if r.IntN(3) == 0 {
		cfg = append(cfg, "numeric")
	}
	return cfg
}

// hostileArgs: the 4 argument-carrying options pinned to their most hostile argument
// for the 2^14 enumeration of C02.
var hostileArgs = []string{"special:nofile", "encoding:latin1", "prehost:empty", "pathset:pct"}

// maskConfig turns a 14-bit mask into a configuration.
func maskConfig(mask int) []string {
	var cfg []string
	for i, s := range switchOptions {
		if mask&(1<<uint(i)) != 0 {
			cfg = append(cfg, s)
		}
	}
	for i, s := range hostileArgs {
		if mask&(1<<uint(10+i)) != 0 {
			cfg = append(cfg, s)
		}
	}
	if len(cfg) == 0 {
		cfg = []string{"default"}
	}
	return cfg
}

// optionForIsCanon tells whether a configuration entry belongs to the canonicalizer
// (profile names, "canon" and the canonicalizer's own options).
func optionForIsCanon(name string) (string, bool) {
	if name == "canon" || strings.HasPrefix(name, "profile:") {
		return name, true
	}
	if name == "default" || name == "numeric" || name == "shuffled" {
		return name, false
	}
	_, isCanon := optionFor(name)
	return name, isCanon
}
