package mon

import (
	"fmt"
	"strconv"
	"strings"

	"github.com/nlnwa/whatwg-url/url"

	"verif/core"
	"verif/gen"
	"verif/obs"
	"verif/refmodel"
)

// C08 — IPv6 hosts: accepted exactly per the standard, serialized canonically.
type c08 struct{}

func init() { core.Register(c08{}) }

func (c08) ID() string { return "C08" }

func (c08) Info() core.Info {
	return core.Info{
		Rule: "(a) 'mask': all 256 zero/non-zero masks x 6 value fillings through the exported IPv6Addr.String() and through parsing the fully " +
			"expanded form - exhaustive for the compression rule; (b) 'text': structural enumeration of bracket texts (0-9 pieces from a pool of 15, " +
			"'::' inserted 0-2 times at every boundary, optional IPv4 tail from a pool of 21, trailing garbage) in http:// and foo:// URLs vs the model; " +
			"(c) 'arrangement': every bracket arrangement (missing, doubled, inner, trailing garbage) x special/non-special; (d) 'random': random valid " +
			"addresses in random spelling: value preserved (128-bit equality via the model parser), canonical text, serialize-parse identity. " +
			"Non-trivial: the host starts with '[' (the IPv6 path was taken); distinct by (scheme, host text).",
		Assumptions: []string{"reference model = SPEC-NOTES.md §C (IPv6 parser and serializer)"},
		MinDistinct: map[string]int{"quick": 50000, "thorough": 500000},
		NeedsModel:  true,
	}
}

func (c08) Plan(tier string) core.Plan { return core.Plan{Shards: 16} }

var c08Fill = [][8]uint16{
	{1, 1, 1, 1, 1, 1, 1, 1},
	{0xffff, 0xffff, 0xffff, 0xffff, 0xffff, 0xffff, 0xffff, 0xffff},
	{0x1, 0x20, 0x300, 0x4000, 0xa, 0xb0, 0xc00, 0xd000},
	{0xabcd, 0xef, 0x10, 0xf00d, 0x8, 0x7f, 0xfe80, 0x2001},
	{0x100, 0x100, 0x100, 0x100, 0x100, 0x100, 0x100, 0x100},
	{0x1000, 0x1, 0x10, 0x1000, 0x1, 0x10, 0x1000, 0x1},
}

func expand(a [8]uint16, upper, pad bool) string {
	p := make([]string, 8)
	for i, v := range a {
		s := strconv.FormatUint(uint64(v), 16)
		if pad {
			s = fmt.Sprintf("%04x", v)
		}
		if upper {
			s = strings.ToUpper(s)
		}
		p[i] = s
	}
	return strings.Join(p, ":")
}

func (m c08) Run(ctx *core.Ctx) {
	r := ctx.Rng
	// (a) masks: every shard takes its slice of the 256 x 6 grid
	k := 0
	for mask := 0; mask < 256; mask++ {
		for f := range c08Fill {
			k++
			if k%ctx.NShards != ctx.Shard {
				continue
			}
			cs := &core.Case{Check: "mask", N: mask*16 + f}
			ctx.Begin(cs)
			m.Exec(ctx, cs)
		}
	}
	n := split(tierN(ctx.Tier, 2_000_000, 60_000_000), ctx.Shard, ctx.NShards)
	for i := int64(0); i < n; i++ {
		scheme := "http"
		if r.IntN(4) == 0 {
			scheme = gen.Pick(r, []string{"foo", "https", "ws", "file", "a"})
		}
		var cs *core.Case
		switch r.IntN(10) {
		case 0, 1, 2, 3, 4, 5:
			cs = &core.Case{Check: "text", Input: core.S(gen.IPv6Text(r)), Config: []string{scheme}}
		case 6:
			text := gen.IPv6Text(r)
			if r.IntN(2) == 0 {
				text = gen.RandomIPv6(r)
			}
			arr := []string{"[" + text, text + "]", "[[" + text + "]]", "[" + text + "]]", "[[" + text + "]", "[" + text + "]x", "x[" + text + "]",
				"[][" + text + "]", "[" + text + "][]", "[" + text + "[]", "[" + text + "]:80", "[" + text + "]:", "[" + text + "]:x", "[]", "[", "]", "[[]]", "[:]", "[::", "[:::]", "[::]", "[::1]", "[::ffff:1.2.3.4]", "[::ffff:102:304]", "[" + text + "%5D", "%5B" + text + "]", "[" + text + "] "}
			cs = &core.Case{Check: "arrangement", Input: core.S(gen.Pick(r, arr)), Config: []string{scheme}}
		case 7:
			cs = &core.Case{Check: "text", Input: core.S(gen.Mutate(r, gen.RandomIPv6(r))), Config: []string{scheme}}
		default:
			cs = &core.Case{Check: "random", Input: core.S(gen.RandomIPv6(r)), Config: []string{scheme}}
		}
		ctx.Begin(cs)
		m.Exec(ctx, cs)
	}
}

func (c08) Exec(ctx *core.Ctx, cs *core.Case) {
	if cs.Check == "mask" {
		mask, f := cs.N/16, cs.N%16
		if f >= len(c08Fill) {
			return
		}
		var a [8]uint16
		for i := 0; i < 8; i++ {
			if mask&(1<<uint(7-i)) != 0 {
				a[i] = c08Fill[f][i]
			}
		}
		ctx.NontrivialKey(fmt.Sprintf("mask/%d/%d", mask, f))
		want := refmodel.IPv6Serialize(a)
		var got string
		if pan := ctx.Call(64, func() { addr := url.IPv6Addr(a); got = addr.String() }); pan != nil {
			ctx.Violate("IPv6Addr.String panics", want, pan.String(), fmt.Sprint(a))
			return
		}
		if got != want {
			ctx.Violate("IPv6 serializer is not canonical (first longest run of >= 2 zero pieces)", want, got, fmt.Sprint(a))
		}
		for _, sp := range []struct{ upper, pad bool }{{false, false}, {true, true}} {
			in := "http://[" + expand(a, sp.upper, sp.pad) + "]/"
			u, err, pan := parseImpl(ctx, nil, in, "", false, false)
			if pan != nil || err != nil || u == nil {
				ctx.Violate("expanded IPv6 address rejected", "["+want+"]", fmt.Sprint(pan, err), in)
				continue
			}
			if u.Hostname() != "["+want+"]" {
				ctx.Violate("expanded IPv6 address serialized non-canonically", "["+want+"]", u.Hostname(), in)
			}
		}
		ctx.Count("mask_cases")
		return
	}
	scheme := "http"
	if len(cs.Config) > 0 {
		scheme = cs.Config[0]
	}
	host := string(cs.Input)
	if cs.Check == "text" || cs.Check == "random" {
		host = "[" + host + "]"
	}
	input := scheme + "://" + host + "/"
	mu := M.Parse(input, nil)
	u, err, pan := parseImpl(ctx, nil, input, "", false, false)
	if strings.HasPrefix(host, "[") {
		ctx.Nontrivial()
	}
	if pan != nil {
		ctx.Violate("panic while parsing an IPv6 host", describeModel(mu), pan.String(), input)
		return
	}
	ok := err == nil && u != nil
	if ok != (mu != nil) {
		if ok {
			ctx.Count("impl_accepts")
			ctx.Violate("IPv6 host accepted, the standard rejects it", "failure", u.Hostname(), input)
		} else {
			ctx.Violate("IPv6 host rejected, the standard accepts it", mu.Hostname(), errString(err), input)
		}
		return
	}
	if !ok {
		ctx.Count("rejected")
		return
	}
	ctx.Count("accepted")
	want, got := mu.Ten(), obs.TakeTen(u)
	if want != got {
		ctx.Violate("IPv6 host serialized differently from the standard", want[5], got[5], input+": "+strings.Join(obs.DiffTen(refmodel.TenNames, want, got), "; "))
		return
	}
	hn := u.Hostname()
	if strings.HasPrefix(hn, "[") {
		ctx.Count("ipv6_hosts")
		// value preservation: the canonical text denotes the same 128-bit value as the input text
		if (cs.Check == "text" || cs.Check == "random") && strings.Trim(string(cs.Input), "0123456789abcdefABCDEF:.") == "" {
			v1, ok1 := refmodel.IPv6Parse([]rune(string(cs.Input)))
			v2, ok2 := refmodel.IPv6Parse([]rune(hn[1 : len(hn)-1]))
			if !ok1 || !ok2 || v1 != v2 {
				ctx.Violate("serialized IPv6 host denotes a different address", fmt.Sprint(v1), fmt.Sprint(v2), input)
			}
		}
		// serialize -> parse identity
		again := scheme + "://" + hn + "/"
		u2, err2, pan2 := parseImpl(ctx, nil, again, "", false, false)
		if pan2 != nil || err2 != nil || u2 == nil {
			ctx.Violate("serialized IPv6 host does not parse", hn, fmt.Sprint(pan2, err2), again)
		} else if u2.Hostname() != hn {
			ctx.Violate("serialize-then-parse of an IPv6 host is not the identity", hn, u2.Hostname(), again)
		}
	}
}
