package mon

import (
	"fmt"
	"sort"
	"strings"

	"github.com/nlnwa/whatwg-url/url"

	"verif/core"
	"verif/gen"
	"verif/refmodel"
)

// C12 — a URL and its SearchParams always describe the same query.
type c12 struct{}

func init() { core.Register(c12{}) }

func (c12) ID() string { return "C12" }

func (c12) Info() core.Info {
	return core.Info{
		Rule: "invariant monitor over interleavings: histories of 1-10 steps over {Append, Delete, Set, Sort, SortAbsolute on any handle obtained so far; SetSearch; SetHash, " +
			"SetPathname, SetProtocol, SetHost, SetPort; re-fetching SearchParams()} on start URLs with/without query (special, non-special, opaque path). After a SearchParams " +
			"mutation: Query(), Search() and the query part cut out of Href(false) equal the handle's String(). After SetSearch(v): every handle - including those obtained before " +
			"the call - serializes like the standard's urlencoded parse of the new Query() and answers GetAll/Has like it; after SetSearch(\"\") every handle is empty. After any " +
			"other setter neither the query nor any handle changed. Handles are read with String/GetAll/Get/Has only (Iterate re-serializes). Non-trivial: at least one SearchParams mutation or SetSearch ran; distinct by (start, history).",
		Assumptions: []string{"an emptied list may leave an empty (non-null) query: only the serializations are compared, as the property states",
			"SetSearchParams is not one of the two kinds of operation the property names"},
		MinDistinct: map[string]int{"quick": 100000, "thorough": 1000000},
	}
}

func (c12) Plan(tier string) core.Plan { return core.Plan{Shards: 16} }

var c12Starts = []string{"http://h/", "http://h/?a=1&b=2", "http://h/p?a=1%2B1&a=2#f", "https://u:p@h:1/p?x", "a://h/?a=b", "a://h", "a:/p?q=1", "a:p?a=1", "a:p", "a:p  ?q#f", "file:///x?a", "http://h/?", "http://h/?&&=&", "ws://h/?é=ü&%ff=1"}

func (m c12) Run(ctx *core.Ctx) {
	r := ctx.Rng
	n := split(tierN(ctx.Tier, 600_000, 20_000_000), ctx.Shard, ctx.NShards)
	for i := int64(0); i < n; i++ {
		start := gen.Pick(r, c12Starts)
		if r.IntN(4) == 0 {
			start = gen.Pick(r, []string{"http://h/?", "a://h/?", "a:p?"}) + gen.QueryString(r)
		}
		cs := &core.Case{Check: "interleaving", Input: core.S(start), N: r.IntN(2)}
		if r.IntN(5) == 0 {
			// derived start (see Exec): "clone" / "clone+sp" / "ref:<reference>" / "ref+sp:<reference>"
			ref := gen.Pick(r, []string{"", "#f", "?x=1&y=2", "?", "p", "../q?a=1", "?" + gen.QueryString(r), "//h2/p?k=v"})
			cs.Alt = core.S(gen.Pick(r, []string{"clone", "clone+sp", "ref:" + ref, "ref+sp:" + ref, "ref+sp:" + ref}))
		}
		if r.IntN(4) == 0 {
			cs.Config = []string{gen.Pick(r, []string{"allownonbasepath", "skipequals", "lax", "singlepercent", "report"})}
			if r.IntN(2) == 0 {
				cs.Config = append(cs.Config, "allownonbasepath")
			}
		}
		if r.IntN(80) == 0 {
			// a list just beyond a small/large cut-off, looked up by name before anything else
			n := gen.Pick(r, gen.ThresholdSizes[:6])
			for j := 0; j < n; j++ {
				cs.Ops = append(cs.Ops, sOp("sp.append", gen.Pick(r, []string{"a", "b", "c", "k"}), fmt.Sprint(j), "0"))
			}
			cs.Ops = append(cs.Ops, sOp("lookup", "a"), sOp("lookup", "k"))
		}
		k := 1 + r.IntN(10)
		for j := 0; j < k; j++ {
			var op core.Op
			switch r.IntN(12) {
			case 0, 1, 2, 3:
				op = genOp(r, histKinds{sp: true})
				if op.Name == "sp.rewrite" {
					op.Args = op.Args[:2]
				}
				if r.IntN(25) == 0 {
					op = sOp(gen.Pick(r, []string{"sp.iterpanic", "sp.iternested"}), gen.SPName(r), gen.SPString(r))
				}
				if op.Name == "sp.iterate" {
					op = sOp("sp.append", gen.SPName(r), gen.SPString(r))
				}
				op.Args = append(op.Args, core.S(fmt.Sprint(r.IntN(4)))) // which handle
			case 4, 5, 6:
				v := gen.SetterValue(r, "search")
				if r.IntN(3) == 0 {
					v = gen.QueryString(r)
				}
				if r.IntN(5) == 0 {
					v = ""
				}
				op = sOp("search", v)
				if r.IntN(6) == 0 {
					op = sOp("search-current") // SetSearch(u.Search()): same text, the list must still be re-parsed
				}
			case 7:
				op = sOp("refetch")
			default:
				s := gen.Pick(r, []string{"hash", "pathname", "protocol", "host", "port", "username", "hostname", "password"})
				op = sOp(s, gen.SetterValue(r, s))
			}
			cs.Ops = append(cs.Ops, op)
		}
		ctx.Begin(cs)
		m.Exec(ctx, cs)
	}
}

func hrefQuery(href string) string {
	if i := strings.IndexByte(href, '#'); i >= 0 {
		href = href[:i]
	}
	if i := strings.IndexByte(href, '?'); i >= 0 {
		return href[i+1:]
	}
	return ""
}

// implSerialize serializes a list with the implementation's own serializer on a fresh URL
// of the same kind (so that lists are compared through one and the same serializer).
func implSerialize(kind string, pairs []refmodel.Pair) string {
	w, err := url.Parse(kind)
	if err != nil {
		return "<cannot build reference URL>"
	}
	sp := w.SearchParams()
	for _, p := range pairs {
		sp.Append(p.Name, p.Value)
	}
	return sp.String()
}

// implSerializeWith: as implSerialize, with the parser the URL under test was made by.
func implSerializeWith(p url.Parser, kind string, pairs []refmodel.Pair) string {
	if p == nil {
		return implSerialize(kind, pairs)
	}
	w, err := p.Parse(kind)
	if err != nil {
		return "<cannot build reference URL>"
	}
	sp := w.SearchParams()
	for _, pr := range pairs {
		sp.Append(pr.Name, pr.Value)
	}
	return sp.String()
}

// c12CheckHandles: every handle must describe `expected` (the urlencoded parse of the URL's
// current query).  Three groups of reads per handle, in a per-case order, and inside a group
// the methods in a per-case order: whichever method a caller happens to use FIRST must already
// answer for the current query (a lazily refreshed list that one method forgets to refresh is
// healed by any other read).  Returns true when a violation was reported.
func c12CheckHandles(ctx *core.Ctx, u *url.Url, handles []*url.SearchParams, expected []refmodel.Pair, seenNames map[string]bool, wantStr, where string, hsh uint64) bool {
	inNew := map[string]bool{}
	for _, p := range expected {
		inNew[p.Name] = true
	}
	var absent []string
	for name := range seenNames {
		if !inNew[name] && !strings.ContainsRune(refmodel.Scalar(name), 0xFFFD) {
			absent = append(absent, name)
		}
	}
	sort.Strings(absent)
	groupAbsent := func(h *url.SearchParams, k int) bool {
		for _, name := range absent {
			var has bool
			var get string
			var all []string
			for j := 0; j < 3; j++ {
				switch (j + int(hsh>>20)) % 3 {
				case 0:
					has = h.Has(name)
				case 1:
					get = h.Get(name)
				case 2:
					all = h.GetAll(name)
				}
			}
			if has || get != "" || len(all) != 0 {
				ctx.Violate("a handle answers for a name that is not in the URL's query", "Has=false", fmt.Sprintf("Has(%q)=%v Get=%q GetAll=%q", name, has, get, all), fmt.Sprintf("%s (handle %d, query %q)", where, k, u.Query()))
				return true
			}
		}
		return false
	}
	groupString := func(h *url.SearchParams, k int) bool {
		if got := h.String(); got != wantStr {
			ctx.Violate("a SearchParams handle does not equal the urlencoded parse of the URL's query", wantStr, got,
				fmt.Sprintf("%s (handle %d of %d, query %q)", where, k, len(handles), u.Query()))
			return true
		}
		return false
	}
	groupNames := func(h *url.SearchParams, k int) bool {
		for _, p := range expected {
			if strings.ContainsRune(p.Name, 0xFFFD) {
				continue
			}
			var all []string
			var has bool
			if (hsh>>24)&1 == 0 {
				all, has = h.GetAll(p.Name), h.Has(p.Name)
			} else {
				has = h.Has(p.Name)
				all = h.GetAll(p.Name)
			}
			wantAll := (&refmodel.List{Pairs: expected}).GetAll(p.Name)
			for j := range all {
				all[j] = refmodel.Scalar(all[j])
			}
			if strings.Join(all, "\x00") != strings.Join(wantAll, "\x00") || !has {
				ctx.Violate("GetAll/Has of a handle disagree with the urlencoded parse of the URL's query", fmt.Sprint(wantAll), fmt.Sprintf("GetAll=%q Has=%v", all, has), fmt.Sprintf("%s name %q (handle %d)", where, p.Name, k))
				return true
			}
		}
		return false
	}
	groups := []func(*url.SearchParams, int) bool{groupAbsent, groupString, groupNames}
	for k, h := range handles {
		for _, g := range [][3]int{{0, 1, 2}, {1, 2, 0}, {2, 0, 1}, {0, 2, 1}, {2, 1, 0}, {1, 0, 2}}[(hsh>>16)%6] {
			if groups[g](h, k) {
				return true
			}
		}
	}
	return false
}

func (c12) Exec(ctx *core.Ctx, cs *core.Case) {
	input := string(cs.Input)
	var parser url.Parser
	if len(cs.Config) > 0 {
		parser = buildParser(cs.Config)
	}
	u, err, pan := parseImpl(ctx, parser, input, "", false, false)
	if pan != nil || err != nil || u == nil {
		ctx.Count("start_rejected")
		return
	}
	hsh := cs.Hash()
	seenNames := map[string]bool{}
	interesting := false
	if alt := string(cs.Alt); alt != "" {
		// derived start: the URL under test is a clone of, or a resolution against, the parsed
		// URL - whose own SearchParams may have been fetched (and looked at) before
		b := u
		var derr error
		if pan := ctx.Call(len(alt)+len(input)+256, func() {
			if strings.Contains(alt, "sp") {
				sp := b.SearchParams()
				_ = sp.Has("a")
			}
			if strings.HasPrefix(alt, "clone") {
				u = b.Clone()
			} else {
				u, derr = b.Parse(strings.TrimPrefix(alt[strings.IndexByte(alt, ':')+1:], ""))
			}
		}); pan != nil || derr != nil || u == nil {
			ctx.Count("derived_start_rejected")
			return
		}
		ctx.Count("derived_starts")
		interesting = true
	}
	var handles []*url.SearchParams
	if cs.N == 1 {
		handles = append(handles, u.SearchParams()) // a handle obtained before anything else
	}
	kind := "http://h/"
	if !u.IsSpecialScheme() {
		kind = "a://h/"
	}
	if (hsh>>28)%2 == 0 || len(cs.Ops) == 0 {
		// the list a URL starts with is the urlencoded parse of its query, however the URL was obtained
		if len(handles) == 0 {
			handles = append(handles, u.SearchParams())
		}
		expected := refmodel.ParseURLEncoded(u.Query())
		ctx.Count("initial_checks")
		if c12CheckHandles(ctx, u, handles, expected, map[string]bool{"a": true, "zz": true}, implSerializeWith(parser, kind, expected), "at the start", hsh) {
			return
		}
	}
	quiet := hsh%3 == 0
	if quiet {
		ctx.Count("quiet_cases")
	}
	readOrder := [][4]int{{0, 1, 2, 3}, {1, 2, 3, 0}, {3, 2, 1, 0}, {2, 0, 3, 1}, {3, 0, 1, 2}, {1, 3, 0, 2}}[(hsh>>8)%6]
	for i, op := range cs.Ops {
		where := fmt.Sprintf("after step %d %s", i, clipS(op.String(), 120))
		// the query part is cut out of Href only under the default parser: with relaxing options
		// (lax host parsing) a host may contain '?', so the text of Href cannot be cut reliably
		hq := func() string {
			if parser != nil {
				return u.Query()
			}
			return hrefQuery(u.Href(false))
		}
		// quiet cases read nothing of the URL or the handles between the steps; the relations
		// are checked after the last step only (state that any read would refresh stays stale)
		check := !quiet || i == len(cs.Ops)-1
		var beforeQuery, beforeHrefQ string
		var beforeStrings []string
		if check {
			beforeQuery, beforeHrefQ = u.Query(), hq()
			for _, h := range handles {
				beforeStrings = append(beforeStrings, h.String())
			}
		}
		switch {
		case op.Name == "refetch":
			handles = append(handles, u.SearchParams())
			continue
		case op.Name == "lookup":
			if len(handles) == 0 {
				handles = append(handles, u.SearchParams())
			}
			for _, h := range handles {
				_ = h.Get(op.Arg(0))
				_ = h.Has(op.Arg(0))
				_ = h.GetAll(op.Arg(0))
			}
			seenNames[op.Arg(0)] = true
			continue
		case strings.HasPrefix(op.Name, "sp."):
			if len(handles) == 0 {
				handles = append(handles, u.SearchParams())
			}
			h := handles[atoi(op.Arg(len(op.Args)-1))%len(handles)]
			var pan *core.Panic
			switch op.Name {
			case "sp.append":
				pan = ctx.Call(opBytes(op)+256, func() { h.Append(op.Arg(0), op.Arg(1)) })
			case "sp.delete":
				pan = ctx.Call(opBytes(op)+256, func() { h.Delete(op.Arg(0)) })
			case "sp.set":
				pan = ctx.Call(opBytes(op)+256, func() { h.Set(op.Arg(0), op.Arg(1)) })
			case "sp.sort":
				pan = ctx.Call(256, func() { h.Sort() })
			case "sp.sortabs":
				pan = ctx.Call(256, func() { h.SortAbsolute() })
			case "sp.iterpanic":
				// the caller's callback panics and the caller recovers: the handle must go on working
				func() {
					defer func() { _ = recover() }()
					h.Iterate(func(p *url.NameValuePair) { panic("callback") })
				}()
				ctx.Count("callback_panics_recovered")
				continue // nothing was mutated: the relations are judged again after the next real mutation
			case "sp.iternested":
				// the callback itself mutates the list (first pair only); inside the callback the URL must
				// already follow the list
				nestedBad := ""
				pan = ctx.Call(opBytes(op)+len(u.Query())+256, func() {
					first := true
					h.Iterate(func(p *url.NameValuePair) {
						if !first {
							return
						}
						first = false
						h.Append(op.Arg(0), op.Arg(1))
						if q, want := u.Query(), h.String(); q != want && nestedBad == "" {
							nestedBad = fmt.Sprintf("inside the callback: Query=%q list=%q", q, want)
						}
					})
				})
				if pan == nil && nestedBad != "" {
					ctx.Violate("after a SearchParams mutation made inside an Iterate callback the URL's query differs from the list's serialization", "equal", nestedBad, where)
					return
				}
			case "sp.rewrite":
				pan = ctx.Call(opBytes(op)+len(u.Query())+256, func() {
					h.Iterate(func(p *url.NameValuePair) {
						p.Value += op.Arg(0)
						p.Name = op.Arg(1) + p.Name
					})
				})
			}
			if pan != nil {
				ctx.Violate("SearchParams mutation panics", "", pan.String(), where)
				return
			}
			interesting = true
			ctx.Count("sp_mutations")
			if len(op.Args) > 1 && op.Name != "sp.rewrite" {
				seenNames[op.Arg(0)] = true
			}
			if !check {
				continue
			}
			var want, q, s, hqv string
			for _, k := range readOrder { // the four reads in a per-case order
				switch k {
				case 0:
					want = h.String()
				case 1:
					q = u.Query()
				case 2:
					s = u.Search()
				case 3:
					hqv = hq()
				}
			}
			wantSearch := ""
			if want != "" {
				wantSearch = "?" + want
			}
			if q != want || s != wantSearch || hqv != want {
				ctx.Violate("after a SearchParams mutation the URL's query differs from the list's serialization", want, fmt.Sprintf("Query=%q Search=%q href-query=%q", q, s, hqv), where)
				return
			}
			// every other handle describes the same list
			for k, o := range handles {
				if o.String() != want {
					ctx.Violate("two handles of the same URL disagree after a mutation", want, o.String(), fmt.Sprintf("%s (handle %d)", where, k))
					return
				}
			}
		case op.Name == "search" || op.Name == "search-current":
			v := op.Arg(0)
			if op.Name == "search-current" {
				v = u.Search()
			}
			if pan := ctx.Call(len(v)+256, func() { u.SetSearch(v) }); pan != nil {
				ctx.Violate("SetSearch panics", "", pan.String(), where)
				return
			}
			interesting = true
			ctx.Count("set_search")
			if len(handles) == 0 && i%2 == 0 {
				handles = append(handles, u.SearchParams())
			}
			if !check {
				continue
			}
			expected := refmodel.ParseURLEncoded(u.Query())
			if v == "" && (u.Query() != "" || len(expected) != 0) {
				ctx.Violate("SetSearch(\"\") left a query", "", u.Query(), where)
				return
			}
			if c12CheckHandles(ctx, u, handles, expected, seenNames, implSerializeWith(parser, kind, expected), where, hsh) {
				return
			}
		default:
			v := op.Arg(0)
			if pan := ctx.Call(len(v)+256, func() { applyOp(u, op) }); pan != nil {
				ctx.Count("setter_panics(C02)")
				return
			}
			ctx.Count("other_setters")
			if !check {
				continue
			}
			if u.Query() != beforeQuery || hq() != beforeHrefQ {
				ctx.Violate("a setter other than search changed the query", beforeQuery, u.Query(), where)
				return
			}
			for k, h := range handles {
				if h.String() != beforeStrings[k] {
					ctx.Violate("a setter other than search changed the parameter list", beforeStrings[k], h.String(), where)
					return
				}
			}
		}
	}
	if interesting {
		ctx.Nontrivial()
	}
}
