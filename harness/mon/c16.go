package mon

import (
	"fmt"
	"math/rand/v2"
	"sort"
	"strings"
	"unicode/utf8"

	"github.com/nlnwa/whatwg-url/canonicalizer"
	"github.com/nlnwa/whatwg-url/errors"
	"github.com/nlnwa/whatwg-url/url"

	"verif/core"
	"verif/gen"
	"verif/given"
	"verif/obs"
	"verif/refmodel"
)

// C16 — every option has its documented effect and is otherwise neutral.
// One sub-check per clause, all differential between parsers built from different option
// lists on the same (input, base).
type c16 struct{}

func init() { core.Register(c16{}) }

func (c16) ID() string { return "C16" }

func (c16) Info() core.Info {
	return core.Info{
		Rule: "per-clause differential monitors on (input, base) from C01's generators (plus clause-specific pools): 'no-options': canonicalizer.New(), url.NewParser() and WhatWg == package " +
			"functions; 'remove': remove-user-info/-port/-fragment profile == underlying parser's result + the standard's setter steps with \"\" (reference model's setters over the default " +
			"parser; the implementation's own setters under random parser-option subsets) + postconditions, all five special schemes with explicit ports in the pool; 'sort': every getter but " +
			"Search/Query/Href equal to the unsorted profile's, multiset of decoded pairs kept, order sorted; 'default-scheme': retry as scheme://input exactly when the plain parser fails with " +
			"MissingSchemeNonRelativeURL, otherwise identical; 'neutral:<option>': for accept-invalid-code-points, percent-encode-single-percent-sign, collapse-consecutive-slashes, " +
			"skip-drive-letter-normalization, special-schemes, lax-host-parsing: when the trigger (invalid UTF-8; '%' not followed by two hex digits; consecutive slashes per the raw-input rule of " +
			"DESIGN.md; '|'; the added scheme name; the parser without lax fails) is absent, the result with the option equals the result without it, alone and inside random subsets of the " +
			"other options; 'set:<option>' and 'special-scheme': implementation with a replaced percent-encode set / an added special scheme == the reference model parameterised with the same " +
			"set / table; 'collapse': no empty non-final segment in a special URL's path; 'skip-equals': String() of a list = default serialization with '=' dropped exactly after names with " +
			"an empty value. Non-trivial: the compared parsers produced at least one URL (or, for sets, a code point of the replaced set occurred); distinct by (clause, options, input, base).",
		Assumptions: []string{"triggers over-approximate on purpose: a wider trigger only shrinks the checked domain", "reference model parameterised by encode sets and special-scheme table (DESIGN.md §3.1)"},
		MinDistinct: map[string]int{"quick": 100000, "thorough": 1000000},
		NeedsModel:  true,
	}
}

func (c16) Plan(tier string) core.Plan { return core.Plan{Shards: 16} }

var c16Clauses = []string{"no-options", "remove", "remove-impl", "sort", "default-scheme",
	"neutral:acceptinvalid", "neutral:singlepercent", "neutral:collapse", "neutral:skipdrive", "neutral:special", "neutral:lax",
	"set", "special-scheme", "collapse", "skip-equals"}

var c16PortPool = []string{"http://h:81/p?q#f", "https://u:p@h:444/p#f", "ftp://h:2121/", "ws://u@h:81/x?y#z", "wss://:p@h:444/#", "ws://h:80/", "wss://h:443/", "http://u:p@h:8080/a/b?c#d",
	"ws://u:p@h:8/", "wss://u:p@h:9/?#", "ftp://u:p@h:22/x#y", "a://u:p@h:1/p?q#f", "a:p  #f", "a:p  ?q#f", "a:p  #", "file:///x#f", "http://h/#", "http://h/?#f", "a://u:p@h:80/#f"}

// benign options to combine with the option under test.
var c16Others = []string{"report", "lax", "collapse", "acceptinvalid", "singlepercent", "skipdrive", "skipequals",
	"pathset:lax", "queryset:lax", "squeryset:tilde", "fragset:c0", "sfragset:tilde", "special:gopher"}

func subsetWithout(r *rand.Rand, exclude string) []string {
	var cfg []string
	if r.IntN(3) == 0 {
		return cfg
	}
	p := []float64{0.1, 0.3, 0.6}[r.IntN(3)]
	for _, o := range c16Others {
		if strings.HasPrefix(o, exclude) {
			continue
		}
		if r.Float64() < p {
			cfg = append(cfg, o)
		}
	}
	return cfg
}

func (m c16) Run(ctx *core.Ctx) {
	r := ctx.Rng
	n := split(tierN(ctx.Tier, 250_000, 4_000_000)*int64(len(c16Clauses)), ctx.Shard, ctx.NShards)
	for i := int64(0); i < n; i++ {
		clause := c16Clauses[int(i)%len(c16Clauses)]
		cs := &core.Case{Check: clause}
		in := gen.Input(r)
		if r.IntN(4) == 0 {
			in = gen.Reference(r)
		}
		base, has := pickBase(r)
		cs.Input, cs.Base, cs.HasBase = core.S(in), core.S(base), has
		switch clause {
		case "remove", "remove-impl":
			if r.IntN(3) == 0 {
				cs.Input = core.S(gen.Pick(r, c16PortPool))
				cs.HasBase = false
			} else if r.IntN(3) == 0 {
				cs.Input = core.S(gen.Mutate(r, gen.Pick(r, c16PortPool)))
			}
			k := 1 + r.IntN(7)
			for b, o := range []string{"removeuserinfo", "removeport", "removefragment"} {
				if k&(1<<uint(b)) != 0 {
					cs.Config = append(cs.Config, o)
				}
			}
			if clause == "remove-impl" {
				cs.Config = append(cs.Config, subsetWithout(r, "-")...)
			}
		case "sort":
			cs.Config = []string{gen.Pick(r, []string{"sort:keys", "sort:param"})}
			if r.IntN(2) == 0 {
				cs.Config = append(cs.Config, "numeric") // WithSortQuery(1) / WithSortQuery(2), as documented
			}
			if r.IntN(2) == 0 {
				cs.Input = core.S(gen.Pick(r, []string{"http://h/?", "a://h/?", "a:p?", "https://u:p@h:1/p?"}) + gen.QueryString(r) + gen.Pick(r, []string{"", "#f", "#"}))
				cs.HasBase = false
			} else if r.IntN(4) == 0 {
				// long queries with few distinct names (stability beyond small-slice fast paths)
				var sb strings.Builder
				sb.WriteString(gen.Pick(r, []string{"http://h/?", "a://h/?"}))
				k := 13 + r.IntN(40)
				for j := 0; j < k; j++ {
					fmt.Fprintf(&sb, "%s=%d&", gen.Pick(r, []string{"a", "b", "c", "b", "aa"}), j)
				}
				cs.Input = core.S(sb.String())
				cs.HasBase = false
			}
		case "default-scheme":
			cs.Config = []string{gen.Pick(r, []string{"defaultscheme:http", "defaultscheme:https", "defaultscheme:a", "defaultscheme:file", "defaultscheme:ws"})}
			cs.HasBase = false
			if r.IntN(2) == 0 {
				cs.Input = core.S(gen.Pick(r, []string{gen.Host(r) + gen.Path(r), gen.Host(r) + ":" + gen.Port(r) + gen.Path(r), "//" + gen.Host(r), "/" + gen.PathSeg(r), "?" + gen.QueryOrFragment(r), gen.Userinfo(r) + "@" + gen.Host(r)}))
			}
		case "neutral:acceptinvalid", "neutral:singlepercent", "neutral:collapse", "neutral:skipdrive", "neutral:lax":
			opt := strings.TrimPrefix(clause, "neutral:")
			cs.Config = append([]string{opt}, subsetWithout(r, opt)...)
		case "neutral:special":
			cs.Config = append([]string{"special:gopher"}, subsetWithout(r, "special")...)
		case "set":
			name := gen.Pick(r, []string{"pathset", "queryset", "squeryset", "fragset", "sfragset"})
			cs.Config = []string{name + ":" + gen.Pick(r, []string{"lax", "c0", "pct", "tilde", "delims"})}
			if r.IntN(2) == 0 {
				// enrich with the characters in which the sets differ
				extra := gen.Pick(r, []string{"~", "x", "%", "%41", "%zz", "\"", "'", "/", ";", "?", "{", "}", "<", ">", "`", " ", "#", ".",
					":", "|", "C:", "c|", "@", "=", "&", "+", "!", "$", "*", "..", "%2e", "a.b"})
				in := string(cs.Input)
				p := r.IntN(len(in) + 1)
				cs.Input = core.S(in[:p] + extra + in[p:])
			}
			if strings.HasSuffix(cs.Config[0], ":delims") && r.IntN(3) == 0 {
				// drive letters and dot segments when ':' '|' '.' are in the replaced set
				cs.Input = core.S(gen.Pick(r, []string{"file:///C:/x", "file:///c:foo/bar", "file:///a|b", "file:///C|/x/../y", "file://h/C:/x", "file:C:/x", "file:/c|", "http://h/a.b/./c/../d", "http://h/C:/x", "a://h/c:/.."}) +
					gen.Pick(r, []string{"", "?a=b&c", "#f.g", "?x:y|z"}))
				cs.HasBase = r.IntN(3) == 0
				if cs.HasBase {
					cs.Base = core.S(gen.Pick(r, []string{"file:///D:/p/q", "file:///d|/p", "http://h/x.y/z"}))
					cs.Input = core.S(gen.Pick(r, []string{"C:/x", "c|/y", "/C:/z", "../E:", "a.b", "./c:d", "c:foo"}))
				}
			}
		case "special-scheme":
			cs.Config = []string{gen.Pick(r, []string{"special:gopher", "special:foo8080", "special:barnoport"})}
			if r.IntN(2) == 0 {
				sch := gen.Pick(r, []string{"gopher", "foo", "bar", "GOPHER", "Foo"})
				cs.Input = core.S(sch + gen.Pick(r, []string{"://", ":", ":/", ":\\\\", ":///"}) + gen.Host(r) + gen.Pick(r, []string{"", ":70", ":8080", ":71", ":", ":0", ":00", ":65535"}) + gen.Path(r))
			}
			// setter histories on URLs of such a parser (the table must also govern the override paths)
			if r.IntN(3) == 0 {
				if r.IntN(2) == 0 {
					cs.Input = core.S(gen.Pick(r, []string{"foo://EX%41MPLE.com:8080/p", "gopher://h:70/x", "bar://h:0/", "zz://0x7f.1/p?q#f", "http://h/", "foo://u:p@h/", "zz://H%41/", "gopher://1.2.3.4/"}))
					cs.HasBase = false
				}
				for k := 1 + r.IntN(4); k > 0; k-- {
					st := gen.Pick(r, []string{"protocol", "protocol", "host", "hostname", "port", "pathname", "username"})
					v := gen.SetterValue(r, st)
					if st == "protocol" && r.IntN(2) == 0 {
						v = gen.Pick(r, []string{"gopher", "foo", "bar", "http", "https", "zz", "file", "ws"})
					}
					if st == "port" && r.IntN(2) == 0 {
						v = gen.Pick(r, []string{"0", "70", "8080", "80", "443", ""})
					}
					cs.Ops = append(cs.Ops, sOp(st, v))
				}
			}
			if r.IntN(3) == 0 {
				cs.Base, cs.HasBase = core.S(gen.Pick(r, []string{"gopher://h:70/a/b", "foo://h:8080/a/b?q", "bar://h/a/", "gopher://h/"})), true
			}
		case "collapse":
			cs.Config = append([]string{"collapse"}, subsetWithout(r, "collapse")...)
			if r.IntN(2) == 0 {
				cs.Input = core.S(gen.Pick(r, specialPrefixes) + gen.Pick(r, []string{"//", "/", "///", "/a//", "//.", "//..", "/.//", "/a/..//", "\\\\", "/\\"}) + gen.Path(r))
			}
		case "skip-equals":
			k := r.IntN(6)
			for j := 0; j < k; j++ {
				v := gen.SPString(r)
				if r.IntN(2) == 0 {
					v = ""
				}
				cs.Ops = append(cs.Ops, sOp("sp.append", gen.SPName(r), v))
			}
			cs.Input = core.S(gen.Pick(r, []string{"http://h/", "a://h/", "http://h/?a=&b&c=d", "a:p?x=&y"}))
			cs.HasBase = false
		}
		ctx.Begin(cs)
		m.Exec(ctx, cs)
	}
}

var specialPrefixes = []string{"http://h", "https://h", "ftp://h", "ws://h", "wss://h", "file://", "file://h", "http://h/x"}

// ---------------------------------------------------------------------------------------

type outcome struct {
	ok   bool
	snap obs.Snap
	err  error
	pan  *core.Panic
	u    *url.Url
}

func run(ctx *core.Ctx, p url.Parser, input, base string, hasBase bool) outcome {
	u, err, pan := parseImpl(ctx, p, input, base, hasBase, false)
	o := outcome{err: err, pan: pan, u: u}
	if pan == nil && err == nil && u != nil {
		o.ok = true
		if p2 := ctx.Call(len(input)+len(base)+64, func() { o.snap = obs.Take(u) }); p2 != nil {
			o.pan, o.ok = p2, false
		}
	}
	return o
}

func sameOutcome(a, b outcome) (bool, string) {
	if a.ok != b.ok {
		return false, fmt.Sprintf("success %v vs %v (%s / %s)", a.ok, b.ok, errString(a.err), errString(b.err))
	}
	if a.ok && a.snap != b.snap {
		return false, strings.Join(obs.Diff(a.snap, b.snap), "; ")
	}
	return true, ""
}

// cleanedBytes: trim C0/space and remove tab/newline on the raw bytes (for triggers).
func cleanedAll(input, base string) string { return cleaned(input) + "\x00" + cleaned(base) }

func hasLonePercent(s string) bool {
	for i := 0; i < len(s); i++ {
		if s[i] == '%' {
			if i+2 >= len(s) || !isHexByte(s[i+1]) || !isHexByte(s[i+2]) {
				return true
			}
		}
	}
	return false
}

func isHexByte(b byte) bool {
	return (b >= '0' && b <= '9') || (b >= 'a' && b <= 'f') || (b >= 'A' && b <= 'F')
}

// collapseTrigger: could collapsing consecutive slashes change the result for this
// (input, base)?  Computed on the raw input (DESIGN.md §5 C16), over-approximating.
func collapseTrigger(input string, baseSnap *obs.Snap) bool {
	if baseSnap != nil && strings.Contains(baseSnap.Pathname, "//") {
		return true
	}
	s := strings.ReplaceAll(cleaned(input), "\\", "/")
	// leading slash run: directly after "scheme:" or at position 0 of a scheme-less reference
	start := 0
	scheme := ""
	if m := schemePrefixRe.FindString(s); m != "" {
		start = len(m)
		scheme = strings.ToLower(m[:len(m)-1])
	}
	end := start
	for end < len(s) && s[end] == '/' {
		end++
	}
	run := end - start
	fileish := scheme == "file" || (scheme == "" && baseSnap != nil && baseSnap.Scheme == "file")
	if fileish && run > 3 {
		return true
	}
	if scheme == "" && (baseSnap == nil || !stdSpecial[baseSnap.Scheme] || baseSnap.Scheme == "file") && run > 2 {
		return true // against a non-special (or file) base the authority marker absorbs two slashes only
	}
	if scheme != "" && !stdSpecial[scheme] && run > 2 {
		return true
	}
	return strings.Contains(s[end:], "//")
}

func modelSetFor(arg string, which string) refmodel.Set {
	switch arg {
	case "lax":
		if which == "pathset" {
			return func(r rune) bool { return refmodel.PathSet(r) && r != '.' && r != '<' && r != '>' }
		}
		return func(r rune) bool { return refmodel.QuerySet(r) && !strings.ContainsRune("\"%/;?{", r) }
	case "c0":
		return refmodel.C0ControlSet
	case "pct":
		return func(r rune) bool { return refmodel.PathSet(r) || r == '%' }
	case "tilde":
		return func(r rune) bool { return refmodel.QuerySet(r) || r == '~' || r == 'x' }
	case "delims":
		return func(r rune) bool { return refmodel.PathSet(r) || strings.ContainsRune(":|.@=&+;!$'*", r) }
	}
	return refmodel.PathSet
}

func c16Special(arg string) map[string]string {
	m := map[string]string{"ftp": "21", "file": "", "http": "80", "https": "443", "ws": "80", "wss": "443"}
	switch arg {
	case "gopher":
		m["gopher"] = "70"
	case "foo8080":
		m["foo"] = "8080"
	case "barnoport":
		m["bar"] = ""
	}
	return m
}

func (c16) Exec(ctx *core.Ctx, cs *core.Case) {
	input, base := string(cs.Input), string(cs.Base)
	hasBase := cs.HasBase && base != ""
	clause := cs.Check
	ctx.Count("clause:" + clause)
	switch {
	case clause == "no-options":
		ref := run(ctx, nil, input, base, hasBase)
		if ref.pan != nil {
			ctx.Count("panic(C02)")
			return
		}
		if ref.ok {
			ctx.Nontrivial()
		}
		for name, p := range map[string]url.Parser{"canonicalizer.New()": canonicalizer.New(), "url.NewParser()": url.NewParser(), "canonicalizer.WhatWg": canonicalizer.WhatWg} {
			o := run(ctx, p, input, base, hasBase)
			if o.pan != nil {
				ctx.Violate("a parser built without options panics where the default parser does not", "", o.pan.String(), name)
				return
			}
			if same, d := sameOutcome(ref, o); !same {
				ctx.Violate("a parser or profile built without options differs from the default parser", ref.snap.Href, o.snap.Href, name+": "+d)
				return
			}
		}

	case clause == "remove" || clause == "remove-impl":
		var canon, plainCfg []string
		for _, o := range cs.Config {
			if strings.HasPrefix(o, "remove") {
				canon = append(canon, o)
			} else {
				plainCfg = append(plainCfg, o)
			}
		}
		prof := buildParser(append(append([]string{"canon"}, plainCfg...), canon...))
		plain := buildParser(append([]string{}, plainCfg...))
		got := run(ctx, prof, input, base, hasBase)
		exp := run(ctx, plain, input, base, hasBase)
		if got.pan != nil || exp.pan != nil {
			ctx.Count("panic(C02)")
			return
		}
		if got.ok != exp.ok {
			ctx.Violate("a remove-* profile changes whether parsing succeeds", exp.ok, got.ok, strings.Join(cs.Config, ","))
			return
		}
		if !exp.ok {
			return
		}
		ctx.Nontrivial()
		has := func(o string) bool { return hasOpt(cs.Config, o) }
		// expected through the implementation's own setters on the plain result
		if pan := ctx.Call(len(input)+len(base)+64, func() {
			if has("removeport") {
				exp.u.SetPort("")
			}
			if has("removeuserinfo") {
				exp.u.SetUsername("")
				exp.u.SetPassword("")
			}
			if has("removefragment") {
				exp.u.SetHash("")
			}
			exp.snap = obs.Take(exp.u)
		}); pan != nil {
			ctx.Count("panic(C02)")
			return
		}
		if got.snap != exp.snap {
			ctx.Violate("a remove-* profile differs from the underlying parser's result followed by the setters with \"\"", exp.snap.Href, got.snap.Href,
				strings.Join(cs.Config, ",")+": "+strings.Join(obs.Diff(exp.snap, got.snap), "; "))
			return
		}
		if clause == "remove" {
			// independent oracle: the reference model's setters
			mu := modelParse(M, input, base, hasBase)
			if mu == nil {
				ctx.Count("model_disagrees(C01)")
				return
			}
			if has("removeport") {
				M.SetPort(mu, "")
			}
			if has("removeuserinfo") {
				M.SetUsername(mu, "")
				M.SetPassword(mu, "")
			}
			if has("removefragment") {
				M.SetHash(mu, "")
			}
			if want, ten := mu.Ten(), got.snap.Ten(); want != ten {
				ctx.Violate("a remove-* profile differs from the standard's setter steps applied to the parse result", want, ten,
					strings.Join(cs.Config, ",")+": "+strings.Join(obs.DiffTen(refmodel.TenNames, want, ten), "; "))
				return
			}
		}
		if clause != "remove" {
			return // the postconditions are consequences of the setter steps on the default parser's URLs
		}
		// the other entry point: whatever profile.ParseRef returns (also for an empty base) went through the options
		for _, b := range []string{base, "", "http://u:p@h:81/x#f"} {
			var ru *url.Url
			var rerr error
			if pan := ctx.Call(len(input)+len(b)+64, func() { ru, rerr = prof.ParseRef(b, input) }); pan != nil {
				ctx.Violate("profile.ParseRef panics", "", pan.String(), fmt.Sprintf("base %q", b))
				return
			}
			if rerr != nil || ru == nil {
				continue
			}
			rs := obs.Take(ru)
			if (has("removeuserinfo") && (rs.Username != "" || rs.Password != "") && rs.Hostname != "" && rs.Scheme != "file") || (has("removeport") && rs.Port != "" && rs.Hostname != "") ||
				(has("removefragment") && strings.Contains(rs.Href, "#")) {
				ctx.Violate("a URL returned by profile.ParseRef did not go through the profile's options", "no credentials / port / fragment", rs.Href, fmt.Sprintf("base %q, options %s", b, strings.Join(cs.Config, ",")))
				return
			}
		}
		if has("removeuserinfo") && (got.snap.Username != "" || got.snap.Password != "") {
			ctx.Violate("remove-user-info left credentials", "", got.snap.Username+":"+got.snap.Password, got.snap.Href)
		}
		if has("removeport") && got.snap.Port != "" {
			ctx.Violate("remove-port left a port", "", got.snap.Port, got.snap.Href)
		}
		if has("removefragment") && (got.snap.Hash != "" || strings.Contains(got.snap.Href, "#")) {
			ctx.Violate("remove-fragment left a fragment", "", got.snap.Hash, got.snap.Href)
		}

	case clause == "sort":
		prof := buildParser(cs.Config)
		plain := canonicalizer.New()
		got := run(ctx, prof, input, base, hasBase)
		exp := run(ctx, plain, input, base, hasBase)
		if got.pan != nil || exp.pan != nil {
			ctx.Count("panic(C02)")
			return
		}
		if got.ok != exp.ok {
			ctx.Violate("sort-query changes whether parsing succeeds", exp.ok, got.ok, "")
			return
		}
		if !exp.ok {
			return
		}
		ctx.Nontrivial()
		a, b := exp.snap, got.snap
		a.Search, a.Query, a.Href, a.HrefNoFrag, a.Str = "", "", "", "", ""
		b.Search, b.Query, b.Href, b.HrefNoFrag, b.Str = "", "", "", "", ""
		if a != b {
			ctx.Violate("sort-query changed something else than the query", exp.snap.Href, got.snap.Href, strings.Join(obs.Diff(a, b), "; "))
			return
		}
		before := refmodel.ParseURLEncoded(exp.snap.Query)
		after := refmodel.ParseURLEncoded(got.snap.Query)
		if !isPermutation(before, after) {
			if !ctx.ViolateV(&core.Violation{Class: "sort-query does not keep the multiset of decoded parameters", Expected: exp.snap.Query, Observed: got.snap.Query,
				Note: fmt.Sprint(pairsJSON(before), " vs ", pairsJSON(after))}) {
				return // known finding: the order check below would only repeat it
			}
			return
		}
		name := func(p refmodel.Pair) string { return p.Name }
		for _, p := range after {
			if strings.ContainsRune(p.Name+p.Value, 0xFFFD) {
				ctx.Count("sort_order_not_checked(U+FFFD ambiguity)")
				return
			}
		}
		if hasOpt(cs.Config, "sort:keys") {
			if !stableAmongEqualNames(before, after) {
				ctx.Violate("sort-query (keys) is not stable among equal names", exp.snap.Query, got.snap.Query, "")
			} else if !sortedBy(after, name, lessBytes) && !sortedBy(after, name, refmodel.LessUTF16) {
				ctx.Violate("sort-query (keys) does not order by name", exp.snap.Query, got.snap.Query, "")
			}
		} else {
			concat := func(p refmodel.Pair) string { return p.Name + p.Value }
			pairKey := func(p refmodel.Pair) string { return p.Name + "\x00" + p.Value }
			if !sortedBy(after, concat, lessBytes) && !sortedBy(after, concat, refmodel.LessUTF16) && !sortedBy(after, pairKey, lessBytes) && !sortedByPair(after) {
				ctx.Violate("sort-query (parameter) does not order by name and value", exp.snap.Query, got.snap.Query, "")
			}
		}

	case clause == "default-scheme":
		scheme := strings.TrimPrefix(cs.Config[0], "defaultscheme:")
		prof := buildParser(cs.Config)
		plain := url.NewParser()
		got := run(ctx, prof, input, "", false)
		exp := run(ctx, plain, input, "", false)
		if got.pan != nil || exp.pan != nil {
			ctx.Count("panic(C02)")
			return
		}
		retried := false
		if !exp.ok && exp.err != nil && errors.Type(exp.err) == errors.MissingSchemeNonRelativeURL {
			exp = run(ctx, plain, scheme+"://"+input, "", false)
			retried = true
			ctx.Count("default_scheme_retries")
		}
		if exp.ok || got.ok {
			ctx.Nontrivial()
		}
		if same, d := sameOutcome(exp, got); !same {
			ctx.Violate("default-scheme profile differs from the plain parser (with the retry as scheme://input only for a missing scheme)", exp.snap.Href, got.snap.Href,
				fmt.Sprintf("retried=%v: %s", retried, d))
			return
		}
		if !exp.ok && !got.ok && errors.Type(exp.err) != errors.Type(got.err) {
			ctx.Violate("default-scheme profile reports a different error type", errors.Type(exp.err), errors.Type(got.err), fmt.Sprintf("retried=%v", retried))
		}

	case strings.HasPrefix(clause, "neutral:"):
		if len(cs.Config) == 0 {
			return
		}
		opt := cs.Config[0]
		with := buildParser(cs.Config)
		without := buildParser(append([]string{"default"}, cs.Config[1:]...))
		all := cleanedAll(input, base)
		triggered := false
		switch clause {
		case "neutral:acceptinvalid":
			triggered = !utf8.ValidString(input) || !utf8.ValidString(base)
		case "neutral:singlepercent":
			// also in any percent-decoded form: lax host parsing re-encodes the DECODED host
			for _, t := range []string{all, input, base} {
				for k := 0; k < 4 && !triggered; k++ {
					triggered = hasLonePercent(t)
					t = string(refmodel.PercentDecode([]byte(t)))
				}
			}
		case "neutral:skipdrive":
			triggered = strings.Contains(all, "|")
		case "neutral:special":
			triggered = strings.Contains(strings.ToLower(all), "gopher")
		}
		if triggered {
			ctx.Count("triggered:" + opt)
			return
		}
		o0 := run(ctx, without, input, base, hasBase)
		if o0.pan != nil {
			ctx.Count("panic(C02)")
			return
		}
		if clause == "neutral:lax" && !o0.ok {
			ctx.Count("triggered:" + opt)
			return
		}
		if clause == "neutral:collapse" {
			var bs *obs.Snap
			if hasBase {
				if bo := run(ctx, without, base, "", false); bo.ok {
					bs = &bo.snap
				} else {
					return
				}
			}
			if collapseTrigger(input, bs) || (hasBase && collapseTrigger(base, nil)) {
				ctx.Count("triggered:" + opt)
				return
			}
		}
		o1 := run(ctx, with, input, base, hasBase)
		if o1.pan != nil {
			ctx.Violate("an option panics on an input without its trigger", "", o1.pan.String(), strings.Join(cs.Config, ","))
			return
		}
		if o0.ok || o1.ok {
			ctx.Nontrivial()
		}
		ctx.Count("untriggered:" + opt)
		if same, d := sameOutcome(o0, o1); !same {
			ctx.Violate("option "+opt+" changes the result of an input that does not contain its trigger", o0.snap.Href, o1.snap.Href, strings.Join(cs.Config, ",")+": "+d)
		}

	case clause == "set":
		name, arg, _ := strings.Cut(cs.Config[0], ":")
		p := buildParser(cs.Config)
		conf := refmodel.Default(given.ToASCII)
		set := modelSetFor(arg, name)
		switch name {
		case "pathset":
			conf.Path = set
		case "queryset":
			conf.Query = set
		case "squeryset":
			conf.SpecialQuery = set
		case "fragset":
			conf.Fragment = set
		case "sfragset":
			conf.SpecialFragment = set
		}
		c16VsModel(ctx, p, conf, input, base, hasBase, "replaced percent-encode set "+cs.Config[0])

	case clause == "special-scheme":
		arg := strings.TrimPrefix(cs.Config[0], "special:")
		p := url.NewParser(url.WithSpecialSchemes(c16Special(arg)))
		conf := refmodel.Default(given.ToASCII)
		conf.Special = c16Special(arg)
		c16VsModel(ctx, p, conf, input, base, hasBase, "added special scheme "+arg)
		if len(cs.Ops) > 0 {
			c16SettersVsModel(ctx, p, conf, input, base, hasBase, cs.Ops, "added special scheme "+arg)
		}

	case clause == "collapse":
		p := buildParser(cs.Config)
		o := run(ctx, p, input, base, hasBase)
		if o.pan != nil {
			ctx.Count("panic(C02)")
			return
		}
		if !o.ok || !o.snap.Special {
			return
		}
		ctx.Nontrivial()
		segs := strings.Split(o.snap.Pathname, "/")
		for i := 1; i < len(segs)-1; i++ {
			if segs[i] == "" {
				ctx.Violate("collapse-consecutive-slashes left an empty non-final segment in a special URL's path", "no '//' before the last segment", o.snap.Pathname, strings.Join(cs.Config, ","))
				return
			}
		}

	case clause == "skip-equals":
		skip := url.NewParser(url.WithSkipEqualsForEmptySearchParamsValue())
		us, e1, p1 := parseImpl(ctx, skip, input, "", false, false)
		ud, e2, p2 := parseImpl(ctx, nil, input, "", false, false)
		if p1 != nil || p2 != nil || e1 != nil || e2 != nil {
			return
		}
		ctx.Nontrivial()
		var gotS string
		var pieces []string
		if pan := ctx.Call(4096, func() {
			for _, op := range cs.Ops {
				applyOp(us, op)
				applyOp(ud, op)
			}
			gotS = us.SearchParams().String()
			// expected: per pair, the default serialization with '=' dropped iff the value is empty
			var pairs []refmodel.Pair
			ud.SearchParams().Iterate(func(p *url.NameValuePair) { pairs = append(pairs, refmodel.Pair{Name: p.Name, Value: p.Value}) })
			for _, pr := range pairs {
				w, _ := url.Parse("http://h/")
				w.SearchParams().Append(pr.Name, pr.Value)
				piece := w.SearchParams().String()
				if pr.Value == "" {
					piece = strings.TrimSuffix(piece, "=")
				}
				if pr.Value == "" && pr.Name == "" {
					// "omits '=' only for empty values" leaves open whether the pair with an empty name AND an
					// empty value is written as "=" or as nothing (written as nothing it is lost on re-parse,
					// which is what C17 objects to); both are accepted here
					piece = "\x00"
				}
				pieces = append(pieces, piece)
			}
		}); pan != nil {
			ctx.Violate("skip-equals serialization panics", "", pan.String(), "")
			return
		}
		if want := strings.Join(pieces, "&"); !matchSkipEquals(pieces, gotS) {
			ctx.Violate("skip-equals does not omit '=' exactly for empty parameter values", strings.ReplaceAll(want, "\x00", "[=]"), gotS, "")
		}
		if hq := hrefQuery(us.Href(false)); len(cs.Ops) > 0 && hq != gotS {
			ctx.Violate("skip-equals: the URL's query differs from the list's serialization", gotS, hq, "")
		}
	}
}

// matchSkipEquals: got is the pieces joined by '&', where a piece "\x00" stands for either "" or "=".
func matchSkipEquals(pieces []string, got string) bool {
	reach := map[int]bool{0: true}
	for i, pc := range pieces {
		next := map[int]bool{}
		for pos := range reach {
			if i > 0 {
				if pos >= len(got) || got[pos] != '&' {
					continue
				}
				pos++
			}
			cands := []string{pc}
			if pc == "\x00" {
				cands = []string{"", "="}
			}
			for _, c := range cands {
				if strings.HasPrefix(got[pos:], c) {
					next[pos+len(c)] = true
				}
			}
		}
		reach = next
		if len(reach) == 0 {
			return false
		}
	}
	return reach[len(got)]
}

func hasOpt(cfg []string, o string) bool {
	for _, c := range cfg {
		if c == o {
			return true
		}
	}
	return false
}

func c16VsModel(ctx *core.Ctx, p url.Parser, conf *refmodel.Config, input, base string, hasBase bool, what string) {
	mu := modelParse(conf, input, base, hasBase)
	o := run(ctx, p, input, base, hasBase)
	if o.pan != nil {
		ctx.Violate("panic under a "+what, describeModel(mu), o.pan.String(), "")
		return
	}
	if o.ok || mu != nil {
		ctx.Nontrivial()
	}
	if o.ok != (mu != nil) {
		ctx.Violate("with a "+firstWords(what)+" parsing succeeds/fails differently from the standard's algorithm with the same table", describeModel(mu), fmt.Sprint(o.ok, " ", o.snap.Href, " ", errString(o.err)), what)
		return
	}
	if !o.ok {
		return
	}
	if want, got := mu.Ten(), o.snap.Ten(); want != got {
		ctx.Violate("with a "+firstWords(what)+" the result differs from the standard's algorithm with the same table", want, got, what+": "+strings.Join(obs.DiffTen(refmodel.TenNames, want, got), "; "))
	}
	if dp, ok := conf.Special[o.snap.Scheme]; ok && dp != "" && o.snap.Port == dp {
		ctx.Violate("default port of a special scheme not elided", "", o.snap.Port, what)
	}
}

// c16SettersVsModel: setter history on a URL of a parser with a custom table, against the
// reference model parameterised with the same table, compared after every step.
func c16SettersVsModel(ctx *core.Ctx, p url.Parser, conf *refmodel.Config, input, base string, hasBase bool, ops []core.Op, what string) {
	mu := modelParse(conf, input, base, hasBase)
	o := run(ctx, p, input, base, hasBase)
	if o.pan != nil || !o.ok || mu == nil || mu.Ten() != o.snap.Ten() {
		return
	}
	u := o.u
	for i, op := range ops {
		op = respellOp(op, mu.Ten())
		if !obs.IsSetter(op.Name) {
			continue
		}
		before := u.Href(false)
		v := op.Arg(0)
		if pan := ctx.Call(len(v)+len(before)+64, func() { obs.ApplySetter(u, op.Name, v) }); pan != nil {
			ctx.Violate("setter panics under a "+firstWords(what), "", pan.String(), fmt.Sprintf("step %d %s on %q", i, op, before))
			return
		}
		conf.ApplySetter(mu, op.Name, v)
		ctx.Count("custom_table_setter_steps")
		if want, got := mu.Ten(), obs.TakeTen(u); want != got {
			ctx.Violate("under a "+firstWords(what)+" a setter differs from the standard's setter steps with the same table", want, got,
				fmt.Sprintf("%s: step %d %s on %q: %s", what, i, op, before, strings.Join(obs.DiffTen(refmodel.TenNames, want, got), "; ")))
			return
		}
	}
}

func firstWords(s string) string {
	f := strings.Fields(s)
	if len(f) > 3 {
		f = f[:3]
	}
	return strings.Join(f, " ")
}

var _ = sort.Strings
