package mon

import (
	"fmt"
	"strings"

	"verif/core"
	"verif/gen"
	"verif/obs"
	"verif/refmodel"
)

// C05 — setters implement the standard's API setter algorithms: differential setter
// histories against the model, state carried along, compared after every step.
type c05 struct{}

func init() { core.Register(c05{}) }

func (c05) ID() string { return "C05" }

func (c05) Info() core.Info {
	return core.Info{
		Rule: "history + executable model: a start URL (WPT setter starts, base pool, grammar, corpus; optionally resolved against a base) and a sequence of " +
			"1-6 (quick) / 1-10 (thorough) calls of the nine setters with values from per-setter pools (WPT values, curated hostile values, grammar parts, 1 in 8 mutated); " +
			"the same sequence is applied to the implementation and to the reference model and Href plus the nine getters are compared after EVERY step " +
			"(a divergence is attributed to the first differing step). Plus a pairwise block: every ordered pair of (setter, value) over the curated pools " +
			"on 30 start URLs (sampled in quick, complete in thorough). Non-trivial: the start URL parses and at least one setter was applied; distinct by (start, base, history).",
		Assumptions: []string{"reference model = SPEC-NOTES.md §D (setters) on top of §B/§C", "IDNA mapping as given",
			"start URLs on which implementation and model already disagree are C01's business and are skipped (counted)"},
		MinDistinct: map[string]int{"quick": 100000, "thorough": 1000000},
		NeedsModel:  true,
	}
}

func (c05) Plan(tier string) core.Plan { return core.Plan{Shards: 16} }

type pairItem struct{ setter, value string }

func pairItems() []pairItem {
	var items []pairItem
	for _, s := range gen.Setters {
		for _, v := range gen.SetterPool(s) {
			items = append(items, pairItem{s, v})
		}
	}
	return items
}

func (m c05) Run(ctx *core.Ctx) {
	r := ctx.Rng
	maxLen := 6
	if ctx.Tier == "thorough" {
		maxLen = 10
	}
	n := split(tierN(ctx.Tier, 1_200_000, 20_000_000), ctx.Shard, ctx.NShards)
	for i := int64(0); i < n; i++ {
		in, base, has := startCase(r)
		cs := &core.Case{Check: "history", Input: core.S(in), Base: core.S(base), HasBase: has,
			Ops: genHistory(r, maxLen, histKinds{setters: true, clone: i%3 == 0})}
		ctx.Begin(cs)
		m.Exec(ctx, cs)
	}
	// giant setter values just beyond power-of-two sizes (a size guard must not leave a setter half done)
	if ctx.Shard < 6 {
		size := giantSizes(ctx.Tier)[ctx.Shard%len(giantSizes(ctx.Tier))]
		st := []string{"pathname", "search", "pathname", "host", "pathname", "hash"}[ctx.Shard]
		val := map[string]string{"pathname": strings.Repeat("/a", size/2+1), "search": strings.Repeat("a=b&", size/4+1), "host": strings.Repeat("a.", size/2+1), "hash": strings.Repeat("a", 1<<16+1)}[st]
		cs := &core.Case{Check: "giant-setter", Input: core.S(gen.Pick(r, []string{"https://example.org/a/b?q=1#frag", "a://h/p?q#f"})), Ops: []core.Op{sOp(st, val), sOp("port", "81")}}
		ctx.Begin(cs)
		m.Exec(ctx, cs)
	}
	// pairwise block
	items := pairItems()
	total := int64(len(gen.StartPool)) * int64(len(items)) * int64(len(items))
	if ctx.Tier == "thorough" {
		for idx := int64(ctx.Shard); idx < total; idx += int64(ctx.NShards) {
			m.pair(ctx, items, idx)
		}
		ctx.Add("pairwise_complete_block", total/int64(ctx.NShards))
	} else {
		k := split(250_000, ctx.Shard, ctx.NShards)
		for i := int64(0); i < k; i++ {
			m.pair(ctx, items, r.Int64N(total))
		}
	}
}

func (m c05) pair(ctx *core.Ctx, items []pairItem, idx int64) {
	n := int64(len(items))
	b := items[idx%n]
	idx /= n
	a := items[idx%n]
	idx /= n
	start := gen.StartPool[idx%int64(len(gen.StartPool))]
	cs := &core.Case{Check: "pair", Input: core.S(start), Ops: []core.Op{sOp(a.setter, a.value), sOp(b.setter, b.value)}}
	ctx.Begin(cs)
	m.Exec(ctx, cs)
}

func (c05) Exec(ctx *core.Ctx, cs *core.Case) {
	input, base := string(cs.Input), string(cs.Base)
	hasBase := cs.HasBase && base != ""
	mu := modelParse(M, input, base, hasBase)
	u, err, pan := parseImpl(ctx, nil, input, base, hasBase, false)
	if pan != nil {
		ctx.Count("start_panics")
		return
	}
	if (err == nil && u != nil) != (mu != nil) {
		ctx.Count("start_disagrees_with_model(C01)")
		return
	}
	if mu == nil {
		ctx.Count("start_rejected")
		return
	}
	if obs.TakeTen(u) != mu.Ten() {
		ctx.Count("start_disagrees_with_model(C01)")
		return
	}
	// Observation modes (per case): 0/1 every getter after every step (and the serialization
	// before it); 2 nothing is read until the history has ended; 3 after each step exactly ONE
	// getter is read, everything at the end.  A setter that leaves derived state stale until
	// some other getter refreshes it is invisible in mode 0.
	mode := int(cs.Hash() % 4)
	ctx.Count(fmt.Sprintf("observation_mode_%d", mode))
	applied := 0
	for i, op := range cs.Ops {
		op = respellOp(op, mu.Ten())
		if op.Name == "clone" {
			// the history continues on a copy: the setters must do to it what the standard does to the
			// same record (state a copy forgets to carry over only shows in what later setters do)
			if pan := ctx.Call(len(mu.Href(false))+256, func() { u = u.Clone() }); pan != nil || u == nil {
				ctx.Count("panics(C02)")
				return
			}
			ctx.Count("clone_steps")
			continue
		}
		if !obs.IsSetter(op.Name) {
			continue
		}
		before := mu.Href(false)
		if mode <= 1 {
			before = u.Href(false)
		}
		v := op.Arg(0)
		if pan := ctx.Call(len(v)+len(before), func() { obs.ApplySetter(u, op.Name, v) }); pan != nil {
			ctx.Nontrivial()
			ctx.Violate("setter panics", "the standard's setter steps", pan.String(), fmt.Sprintf("step %d %s on %q", i, op, before))
			return
		}
		M.ApplySetter(mu, op.Name, v)
		applied++
		ctx.Count("set:" + op.Name)
		last := true
		for _, later := range cs.Ops[i+1:] {
			if obs.IsSetter(later.Name) {
				last = false
			}
		}
		want := mu.Ten()
		if mode == 3 && !last {
			k := int((cs.Hash()>>8 + uint64(i)*7) % 10)
			if got := obs.GetTen(u, k); got != want[k] {
				ctx.Nontrivial()
				ctx.Violate("a getter read alone after a setter differs from the standard's setter steps", want[k], got,
					fmt.Sprintf("step %d: %s on %q: %s read first", i, op, before, refmodel.TenNames[k]))
				return
			}
			continue
		}
		if mode == 2 && !last {
			continue
		}
		got := obs.TakeTen(u)
		if want != got {
			ctx.Nontrivial()
			ctx.Violate("setter result differs from the standard's setter steps", want, got,
				fmt.Sprintf("step %d: %s on %q: %s", i, op, before, strings.Join(obs.DiffTen(refmodel.TenNames, want, got), "; ")))
			return
		}
		if got[0] != before {
			ctx.Count("step_changed_url")
		}
	}
	if applied > 0 {
		ctx.Nontrivial()
	}
}
