package mon

import (
	"fmt"
	"math/rand/v2"
	"strings"

	"github.com/nlnwa/whatwg-url/canonicalizer"
	"github.com/nlnwa/whatwg-url/url"

	"verif/core"
	"verif/gen"
	"verif/obs"
)

// W-history (DESIGN.md §4): operation sequences over setters, Clone, resolution and the
// SearchParams mutators.

type histKinds struct {
	setters, resolve, clone, sp, spRead bool
	extra                               bool // setters the library gained after the harness was written (obs.ExtraSetters)
}

func sOp(name string, args ...string) core.Op {
	a := make([]core.S, len(args))
	for i, s := range args {
		a[i] = core.S(s)
	}
	return core.Op{Name: name, Args: a}
}

func genOp(r *rand.Rand, k histKinds) core.Op {
	for {
		switch r.IntN(10) {
		case 0, 1, 2, 3, 4, 5:
			if k.setters {
				if k.extra && len(obs.ExtraSetters) > 0 && r.IntN(4) == 0 {
					v := gen.StartURL(r)
					if r.IntN(2) == 0 {
						v = gen.SetterValue(r, gen.Pick(r, gen.Setters))
					}
					return sOp(gen.Pick(r, obs.ExtraSetters), v)
				}
				s := gen.Pick(r, gen.Setters)
				if r.IntN(8) == 0 {
					// the component's CURRENT value, in another spelling (resolved when the history runs)
					return sOp(s + "~" + gen.Pick(r, respellKinds))
				}
				return sOp(s, gen.SetterValue(r, s))
			}
		case 6:
			if k.resolve {
				return sOp("resolve", gen.Reference(r))
			}
		case 7:
			if k.clone {
				return sOp("clone")
			}
		case 8:
			if k.sp {
				switch r.IntN(8) {
				case 7:
					return sOp("sp.rewrite", gen.Pick(r, []string{"x", "", "&", " ", "%41"}), gen.Pick(r, []string{"", "", "n", "="}))
				case 0, 1:
					return sOp("sp.append", gen.SPName(r), gen.SPString(r))
				case 2:
					return sOp("sp.delete", gen.SPName(r))
				case 3:
					return sOp("sp.set", gen.SPName(r), gen.SPString(r))
				case 4:
					return sOp("sp.sort")
				case 5:
					return sOp("sp.sortabs")
				default:
					return sOp("sp.iterate")
				}
			}
		default:
			if k.spRead {
				switch r.IntN(3) {
				case 0:
					return sOp("sp.get", gen.SPName(r))
				case 1:
					return sOp("sp.has", gen.SPName(r))
				default:
					return sOp("sp.string")
				}
			}
		}
	}
}

func genHistory(r *rand.Rand, maxLen int, k histKinds) []core.Op {
	n := 1 + r.IntN(maxLen)
	ops := make([]core.Op, n)
	for i := range ops {
		ops[i] = genOp(r, k)
		// the SAME text handed to another operation right after (a rejected value, then the same value where it is
		// acceptable; state keyed by the argument text that outlives the call)
		if i > 0 && len(ops[i].Args) == 1 && len(ops[i-1].Args) == 1 && r.IntN(10) == 0 {
			ops[i].Args = ops[i-1].Args
		}
	}
	return ops
}

// applyOp applies one operation to u and returns the URL to continue with (a resolve
// that succeeds and a clone replace the current URL).
func applyOp(u *url.Url, op core.Op) *url.Url {
	switch op.Name {
	case "resolve":
		if n, err := u.Parse(op.Arg(0)); err == nil && n != nil {
			return n
		}
		return u
	case "clone":
		return u.Clone()
	case "sp.append":
		u.SearchParams().Append(op.Arg(0), op.Arg(1))
	case "sp.delete":
		u.SearchParams().Delete(op.Arg(0))
	case "sp.set":
		u.SearchParams().Set(op.Arg(0), op.Arg(1))
	case "sp.sort":
		u.SearchParams().Sort()
	case "sp.sortabs":
		u.SearchParams().SortAbsolute()
	case "sp.iterate":
		u.SearchParams().Iterate(func(*url.NameValuePair) {})
	case "sp.rewrite":
		// mutation through the pair pointers Iterate hands out (what the canonicalizer does)
		u.SearchParams().Iterate(func(p *url.NameValuePair) {
			p.Value += op.Arg(0)
			p.Name = op.Arg(1) + p.Name
		})
	case "sp.get":
		_ = u.SearchParams().Get(op.Arg(0))
		_ = u.SearchParams().GetAll(op.Arg(0))
	case "sp.has":
		_ = u.SearchParams().Has(op.Arg(0))
	case "sp.string":
		_ = u.SearchParams().String()
	case "setsp-self":
		u.SetSearchParams(u.SearchParams())
	case "setsp-clone":
		u.SetSearchParams(u.Clone().SearchParams())
	case "setsp-foreign":
		// parameters taken from a URL of a parser with a laxer query set (what the shipped profiles use)
		if o, err := foreignParser.Parse("http://other.example/?" + op.Arg(0)); err == nil && o != nil {
			u.SetSearchParams(o.SearchParams())
		}
	case "setsp-roundtrip":
		o := u.Clone()
		old := u.SearchParams()
		u.SetSearchParams(o.SearchParams())
		o.SetSearchParams(old)
		_ = old.String()
		old.Append("z", "1")
		_ = o.Href(false)
	default:
		if _, _, ok := splitRespell(op.Name); ok {
			op = respellOp(op, obs.TakeTen(u))
		}
		obs.ApplySetter(u, op.Name, op.Arg(0))
	}
	return u
}

// Re-setting a component to its own current value, spelled differently: "hostname~upper" is
// SetHostname(upper-cased current Hostname()).  A setter that short-cuts "nothing changes"
// by comparing texts is only wrong for such values (the parse of the same text may differ
// after the scheme changed, or differ by case for opaque hosts).
var respellKinds = []string{"same", "same", "upper", "lower", "pct", "strip"}

func splitRespell(name string) (setter, kind string, ok bool) {
	i := strings.IndexByte(name, '~')
	if i < 0 {
		return name, "", false
	}
	return name[:i], name[i+1:], true
}

var tenIndexOf = map[string]int{"protocol": 1, "username": 2, "password": 3, "host": 4, "hostname": 5, "port": 6, "pathname": 7, "search": 8, "hash": 9}

func respell(v, kind string) string {
	switch kind {
	case "upper":
		return strings.ToUpper(v)
	case "lower":
		return strings.ToLower(v)
	case "pct":
		for i := 0; i < len(v); i++ {
			if c := v[i]; 'a' <= c && c <= 'z' || 'A' <= c && c <= 'Z' {
				return v[:i] + fmt.Sprintf("%%%02X", c) + v[i+1:]
			}
		}
	case "strip":
		return strings.TrimRight(strings.TrimLeft(v, "?#"), ":")
	}
	return v
}

// respellOp turns a symbolic "setter~kind" operation into a concrete one, given the current
// values (href + the nine getters, in refmodel.TenNames order); other operations are returned as they are.
func respellOp(op core.Op, ten [10]string) core.Op {
	setter, kind, ok := splitRespell(op.Name)
	if !ok {
		return op
	}
	return sOp(setter, respell(ten[tenIndexOf[setter]], kind))
}

var foreignParser = url.NewParser(url.WithQueryPercentEncodeSet(canonicalizer.LaxQueryPercentEncodeSet), url.WithSpecialQueryPercentEncodeSet(canonicalizer.LaxQueryPercentEncodeSet),
	url.WithSkipEqualsForEmptySearchParamsValue())

func opBytes(op core.Op) int {
	n := 0
	for _, a := range op.Args {
		n += len(a)
	}
	return n
}

// startCase draws a start URL and optional base for history workloads.
func startCase(r *rand.Rand) (input, base string, hasBase bool) {
	input = gen.StartURL(r)
	if r.IntN(5) == 0 {
		base = gen.ParseableBase(r)
		hasBase = true
		if r.IntN(2) == 0 {
			input = gen.Reference(r)
		}
	}
	return
}
