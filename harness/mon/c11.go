package mon

import (
	"fmt"
	"math/rand/v2"
	"sort"
	"strings"

	"github.com/nlnwa/whatwg-url/url"

	"verif/core"
	"verif/gen"
	"verif/refmodel"
)

// C11 — SearchParams is an ordered multimap with a faithful form-urlencoded codec:
// history + executable (30-line) list model, compared after every operation.
type c11 struct{}

func init() { core.Register(c11{}) }

func (c11) ID() string { return "C11" }

func (c11) Info() core.Info {
	return core.Info{
		Rule: "history + executable model: a URL (special or non-special) with a generated query string is parsed, its SearchParams are compared with the standard's " +
			"urlencoded parse of the URL's query, then 0-12 operations (Append, Delete, Set, Sort, SortAbsolute, Iterate, Get/GetAll/Has) with names and values built mostly from " +
			"delimiters (& = + % # ? space %2B %26 %3D %00, non-BMP, invalid bytes) are applied to the implementation and to the sequential list model; after EVERY operation the " +
			"pair sequence (read with Iterate), GetAll/Get/Has for every name seen, and the serialize->parse round trip of String() are compared. Sort must be a stable permutation " +
			"non-decreasing by name in byte order or UTF-16 code-unit order; SortAbsolute a permutation ordered by name+value or (name, value) in either collation. " +
			"Strings are compared under the property's convention (invalid UTF-8 bytes count as U+FFFD). Three observation modes per case: every step with Iterate; every step with non-mutating reads only " +
			"(String via the implementation's serializer on the model list, GetAll); only once at the end - so that state which any read would reset is still seen. Long lists (13-52 pairs, few names) for sort " +
			"stability; serialize->parse round trip under an encoding override. Non-trivial: the list or the history is non-empty; distinct by (query, history, mode).",
		Assumptions: []string{"list semantics and urlencoded parser as in SPEC-NOTES.md §E", "Iterate is used as the reader of the pair sequence (it re-serializes the list into the URL's query, which C11 does not look at)"},
		MinDistinct: map[string]int{"quick": 100000, "thorough": 1000000},
	}
}

func (c11) Plan(tier string) core.Plan { return core.Plan{Shards: 16} }

func (m c11) Run(ctx *core.Ctx) {
	r := ctx.Rng
	n := split(tierN(ctx.Tier, 600_000, 16_000_000), ctx.Shard, ctx.NShards)
	for i := int64(0); i < n; i++ {
		q := gen.QueryString(r)
		if r.IntN(6) == 0 {
			q = gen.Mutate(r, q)
		}
		if r.IntN(6) == 0 {
			q = ""
		}
		cs := &core.Case{Check: "history", Input: core.S(q), Config: []string{gen.Pick(r, []string{"http://h/", "a://h/", "a:/p", "file:///x", "https://u:p@h:1/p"})}}
		if i%16 == 1 {
			// long lists with few distinct names: sort stability beyond small-slice fast paths
			cs.Check = "history"
			k := 13 + r.IntN(40)
			if r.IntN(4) == 0 {
				k = gen.Pick(r, gen.ThresholdSizes[:6]) + r.IntN(3) // 9..259: just beyond small/large cut-offs
			}
			nm := []string{"a", "b", "c", "é", "\U00010000", "\uffff", "", "aa"}
			for j := 0; j < k; j++ {
				cs.Ops = append(cs.Ops, sOp("sp.append", nm[r.IntN(2+r.IntN(len(nm)-1))], fmt.Sprint(j%7, "v", j)))
			}
			if r.IntN(2) == 0 {
				cs.Ops = append(cs.Ops, sOp("sp.get", "a"), sOp("sp.has", "b"))
			}
			cs.Ops = append(cs.Ops, sOp(gen.Pick(r, []string{"sp.sort", "sp.sort", "sp.sortabs", "sp.get", "sp.set"}), "a", "changed"))
			if r.IntN(2) == 0 {
				cs.Ops = append(cs.Ops, sOp("sp.delete", "a"), sOp("sp.sort"))
			}
		} else if i%2 == 0 {
			k := r.IntN(13)
			for j := 0; j < k; j++ {
				op := genOp(r, histKinds{sp: true, spRead: r.IntN(4) == 0})
				if len(op.Args) > 0 {
					// names given to operations are valid UTF-8 without U+FFFD, so that a look-up key is
					// unambiguous under the 'invalid bytes count as U+FFFD' convention (values are arbitrary)
					op.Args[0] = core.S(strings.ReplaceAll(refmodel.Scalar(string(op.Args[0])), "\uFFFD", "?"))
				}
				cs.Ops = append(cs.Ops, op)
			}
		} else {
			cs.Check = "parse"
		}
		// how the list is observed: 0 = after every step, with Iterate (full pair sequence);
		// 1 = after every step, without mutating reads (String/GetAll/Has only);
		// 2 = only once, at the end, without mutating reads (no observer effect at all)
		cs.N = r.IntN(3)
		if i%32 == 5 {
			cs = &core.Case{Check: "override-roundtrip", Config: []string{gen.Pick(r, []string{"encoding:latin1", "encoding:win1252"})}}
			for j := 1 + r.IntN(4); j > 0; j-- {
				cs.Ops = append(cs.Ops, sOp("sp.append", c11Latin(r), c11Latin(r)))
			}
		}
		ctx.Begin(cs)
		m.Exec(ctx, cs)
	}
}

// c11Latin: strings within the Latin-1 repertoire, free of the delimiters of KF-B.
func c11Latin(r *rand.Rand) string {
	atoms := []string{"a", "b", "caf\u00e9", "\u00fc", "\u00ff", "\u00a0", "\u00e5\u00e6\u00f8", "x y", "~", "-", "_", ".", "!", "'", "(", ")", "*", "/", ":", ";", "?", "@", "", "1", "Z"}
	n := 1 + r.IntN(3)
	var sb strings.Builder
	for i := 0; i < n; i++ {
		sb.WriteString(gen.Pick(r, atoms))
	}
	return sb.String()
}

func readPairs(sp *url.SearchParams) []refmodel.Pair {
	var out []refmodel.Pair
	sp.Iterate(func(p *url.NameValuePair) { out = append(out, refmodel.Pair{Name: p.Name, Value: p.Value}) })
	return out
}

func scalarPairs(ps []refmodel.Pair) []refmodel.Pair {
	out := make([]refmodel.Pair, len(ps))
	for i, p := range ps {
		out[i] = refmodel.Pair{Name: refmodel.Scalar(p.Name), Value: refmodel.Scalar(p.Value)}
	}
	return out
}

func pairsEqual(a, b []refmodel.Pair) bool {
	if len(a) != len(b) {
		return false
	}
	for i := range a {
		if a[i] != b[i] {
			return false
		}
	}
	return true
}

func pairsJSON(ps []refmodel.Pair) [][2]core.S {
	out := make([][2]core.S, len(ps))
	for i, p := range ps {
		out[i] = [2]core.S{core.S(p.Name), core.S(p.Value)}
	}
	return out
}

func lessBytes(a, b string) bool { return a < b }

// sortedBy: non-decreasing under less.
func sortedBy(ps []refmodel.Pair, key func(refmodel.Pair) string, less func(a, b string) bool) bool {
	for i := 1; i < len(ps); i++ {
		if less(key(ps[i]), key(ps[i-1])) {
			return false
		}
	}
	return true
}

func isPermutation(a, b []refmodel.Pair) bool {
	if len(a) != len(b) {
		return false
	}
	x := append([]refmodel.Pair(nil), a...)
	y := append([]refmodel.Pair(nil), b...)
	f := func(s []refmodel.Pair) {
		sort.Slice(s, func(i, j int) bool {
			if s[i].Name != s[j].Name {
				return s[i].Name < s[j].Name
			}
			return s[i].Value < s[j].Value
		})
	}
	f(x)
	f(y)
	return pairsEqual(x, y)
}

// stableAmongEqualNames: for every name, the values appear in the same relative order.
func stableAmongEqualNames(before, after []refmodel.Pair) bool {
	seq := func(ps []refmodel.Pair) map[string][]string {
		m := map[string][]string{}
		for _, p := range ps {
			m[p.Name] = append(m[p.Name], p.Value)
		}
		return m
	}
	b, a := seq(before), seq(after)
	for k, v := range b {
		w := a[k]
		if len(v) != len(w) {
			return false
		}
		for i := range v {
			if v[i] != w[i] {
				return false
			}
		}
	}
	return true
}

// overrideRoundTrip: under an encoding override the serializer and the urlencoded parser must
// use the same byte encoding: a list of Latin-1 strings survives serialize -> parse.
func (c11) overrideRoundTrip(ctx *core.Ctx, cs *core.Case) {
	p := buildParser(cs.Config)
	u, err, pan := parseImpl(ctx, p, "http://h/", "", false, false)
	if pan != nil || err != nil || u == nil {
		return
	}
	var want []refmodel.Pair
	var str string
	if pan := ctx.Call(4096, func() {
		for _, op := range cs.Ops {
			u.SearchParams().Append(op.Arg(0), op.Arg(1))
			want = append(want, refmodel.Pair{Name: op.Arg(0), Value: op.Arg(1)})
		}
		str = u.SearchParams().String()
	}); pan != nil {
		ctx.Violate("SearchParams operation panics under an encoding override", "", pan.String(), "")
		return
	}
	ctx.Nontrivial()
	ctx.Count("override_roundtrips")
	u2, err2, pan2 := parseImpl(ctx, p, "http://h/?"+str, "", false, false)
	if pan2 != nil || err2 != nil || u2 == nil {
		ctx.Violate("the serialization of a parameter list does not parse as a query", str, errString(err2), "")
		return
	}
	var got []refmodel.Pair
	if pan := ctx.Call(4096, func() { got = readPairs(u2.SearchParams()) }); pan != nil {
		return
	}
	if !pairsEqual(got, want) {
		ctx.Violate("under an encoding override, serializing the list and parsing the result does not return the same list", pairsJSON(want), pairsJSON(got), cs.Config[0]+" String()="+fmt.Sprintf("%q", str))
	}
}

// expectedStrings: the serializations (by the implementation's own serializer, on a fresh
// URL) of the candidate orders the model allows; used by the non-mutating observation modes.
// The list is serialized pair by pair (each through the implementation's serializer on a fresh
// URL, memoised) and joined with '&': linear in the list length, whereas appending n pairs to one
// URL re-serializes the growing list n times.
var c11PairCache = map[refmodel.Pair]string{}

func c11Serialize(pairs []refmodel.Pair) string {
	var sb strings.Builder
	for i, p := range pairs {
		s, ok := c11PairCache[p]
		if !ok {
			s = implSerialize("http://h/", []refmodel.Pair{p})
			if len(c11PairCache) > 200000 {
				c11PairCache = map[refmodel.Pair]string{}
			}
			c11PairCache[p] = s
		}
		if i > 0 {
			sb.WriteByte('&')
		}
		sb.WriteString(s)
	}
	return sb.String()
}

func (m c11) Exec(ctx *core.Ctx, cs *core.Case) {
	if cs.Check == "override-roundtrip" {
		m.overrideRoundTrip(ctx, cs)
		return
	}
	prefix := "http://h/"
	if len(cs.Config) > 0 {
		prefix = cs.Config[0]
	}
	input := prefix + "?" + string(cs.Input)
	if cs.Input == "" && len(cs.Ops) > 0 {
		input = prefix
	}
	u, err, pan := parseImpl(ctx, nil, input, "", false, false)
	if pan != nil || err != nil || u == nil {
		ctx.Count("url_rejected")
		return
	}
	var sp *url.SearchParams
	model := &refmodel.List{}
	var query string
	if pan := ctx.Call(len(input), func() { query = u.Query(); sp = u.SearchParams() }); pan != nil {
		ctx.Violate("SearchParams() panics", "", pan.String(), input)
		return
	}
	model.Pairs = refmodel.ParseURLEncoded(query)
	names := map[string]bool{}
	mode := cs.N
	ambiguous := false // candidate orders after a sort (non-mutating modes)
	var candidates [][]refmodel.Pair
	compareQuiet := func(where string) bool {
		var str string
		if pan := ctx.Call(len(input)+4096, func() { str = sp.String() }); pan != nil {
			ctx.Violate("SearchParams read panics", "", pan.String(), where)
			return false
		}
		cands := candidates
		if len(cands) == 0 {
			cands = [][]refmodel.Pair{model.Pairs}
		}
		for _, c := range cands {
			if c11Serialize(c) == str {
				model.Pairs = append([]refmodel.Pair(nil), c...)
				candidates = nil
				goto lookups
			}
		}
		ctx.Violate("the parameter list (read without mutating: String) differs from the list model", c11Serialize(cands[0]), str, where+" query="+fmt.Sprintf("%q", query))
		return false
	lookups:
		looked := map[string]bool{}
		for _, p := range model.Pairs {
			if strings.ContainsRune(p.Name, 0xFFFD) || looked[p.Name] || len(looked) > 40 {
				continue
			}
			looked[p.Name] = true
			var all []string
			if pan := ctx.Call(len(p.Name)+64, func() { all = sp.GetAll(p.Name) }); pan != nil {
				return false
			}
			for i := range all {
				all[i] = refmodel.Scalar(all[i])
			}
			if want := model.GetAll(p.Name); strings.Join(all, "\x00") != strings.Join(want, "\x00") || len(all) != len(want) {
				ctx.Violate("GetAll disagrees with the list model", fmt.Sprint(want), fmt.Sprint(all), where+" name="+fmt.Sprintf("%q", p.Name))
				return false
			}
		}
		return true
	}
	_ = ambiguous
	compare := func(where string, roundTrip bool) bool {
		if mode != 0 {
			if mode == 2 && where != "at the end" {
				return true
			}
			return compareQuiet(where)
		}
		var got []refmodel.Pair
		var str string
		if pan := ctx.Call(len(input)+4096, func() { got = readPairs(sp); str = sp.String() }); pan != nil {
			ctx.Violate("SearchParams read panics", "", pan.String(), where)
			return false
		}
		sg := scalarPairs(got)
		if !pairsEqual(sg, model.Pairs) {
			class := "the parameter list differs from the list model"
			if where == "after init" {
				class = "initialising from a query differs from the standard's urlencoded parse"
			}
			ctx.Violate(class, pairsJSON(model.Pairs), pairsJSON(sg), where+" query="+fmt.Sprintf("%q", query))
			return false
		}
		for _, p := range model.Pairs {
			names[p.Name] = true
		}
		for n := range names {
			if strings.ContainsRune(n, 0xFFFD) {
				continue // a name that may stand for invalid bytes: the look-up key is ambiguous
			}
			lookup := n
			var all []string
			var first string
			var has bool
			if pan := ctx.Call(len(n)+64, func() { all = sp.GetAll(lookup); first = sp.Get(lookup); has = sp.Has(lookup) }); pan != nil {
				ctx.Violate("Get/GetAll/Has panics", "", pan.String(), where)
				return false
			}
			for i := range all {
				all[i] = refmodel.Scalar(all[i])
			}
			want := model.GetAll(n)
			if strings.Join(all, "\x00") != strings.Join(want, "\x00") || len(all) != len(want) || refmodel.Scalar(first) != model.Get(n) || has != model.Has(n) {
				ctx.Violate("Get/GetAll/Has disagree with the list model", fmt.Sprint(want, model.Get(n), model.Has(n)), fmt.Sprint(all, first, has), where+" name="+fmt.Sprintf("%q", n))
				return false
			}
		}
		if roundTrip {
			back := refmodel.ParseURLEncoded(str)
			if !pairsEqual(back, model.Pairs) {
				if ctx.ViolateV(&core.Violation{Class: "serializing the list and parsing the result does not return the same list",
					Expected: pairsJSON(model.Pairs), Observed: pairsJSON(back), Note: where + " String()=" + fmt.Sprintf("%q", str)}) {
					return false
				}
			}
		}
		return true
	}
	if len(model.Pairs) > 0 || len(cs.Ops) > 0 {
		ctx.Nontrivial()
	}
	ctx.Count("lists_checked")
	if !compare("after init", true) {
		return
	}
	if mode != 0 {
		// the quiet modes need an unambiguous model: no names/values that stand for invalid bytes
		for _, p := range model.Pairs {
			if strings.ContainsRune(p.Name+p.Value, 0xFFFD) {
				mode = 0
			}
		}
		for _, op := range cs.Ops {
			for _, a := range op.Args {
				if strings.ContainsRune(refmodel.Scalar(string(a)), 0xFFFD) {
					mode = 0
				}
			}
		}
	}
	if len(model.Pairs) > 300 || len(cs.Ops) > 300 {
		mode = 2 // very long lists: one non-mutating observation at the end (the per-step oracle is quadratic)
		for _, p := range model.Pairs {
			if strings.ContainsRune(p.Name+p.Value, 0xFFFD) {
				ctx.Count("long_list_skipped(U+FFFD ambiguity)")
				return
			}
		}
		for _, op := range cs.Ops {
			for _, a := range op.Args {
				if strings.ContainsRune(refmodel.Scalar(string(a)), 0xFFFD) {
					ctx.Count("long_list_skipped(U+FFFD ambiguity)")
					return
				}
			}
		}
	}
	ctx.Count(fmt.Sprintf("observation_mode_%d", mode))
	for i, op := range cs.Ops {
		where := fmt.Sprintf("after step %d %s", i, clipS(op.String(), 120))
		if mode != 0 && (op.Name == "sp.sort" || op.Name == "sp.sortabs") {
			if pan := ctx.Call(opBytes(op)+len(input)+4096, func() { applyOp(u, op) }); pan != nil {
				ctx.Violate("SearchParams operation panics", "", pan.String(), where)
				return
			}
			ctx.Count("op:" + op.Name)
			// every still-possible current order x every allowed collation
			bases := candidates
			if len(bases) == 0 {
				bases = [][]refmodel.Pair{model.Pairs}
			}
			candidates = nil
			for _, b := range bases {
				candidates = append(candidates, c11SortCandidates(b, op.Name == "sp.sortabs")...)
			}
			if len(candidates) > 64 {
				candidates = candidates[:64]
			}
			if !compare(where, false) {
				return
			}
			continue
		}
		if mode != 0 && len(candidates) > 0 {
			// an unobserved sort is pending (mode 2): apply the operation to every candidate order
			if pan := ctx.Call(opBytes(op)+len(input)+4096, func() { applyOp(u, op) }); pan != nil {
				ctx.Violate("SearchParams operation panics", "", pan.String(), where)
				return
			}
			ctx.Count("op:" + op.Name)
			a0, a1 := refmodel.Scalar(op.Arg(0)), refmodel.Scalar(op.Arg(1))
			for k := range candidates {
				l := &refmodel.List{Pairs: candidates[k]}
				switch op.Name {
				case "sp.append":
					l.Append(a0, a1)
				case "sp.delete":
					l.Delete(a0)
				case "sp.set":
					l.Set(a0, a1)
				case "sp.rewrite":
					for j := range l.Pairs {
						l.Pairs[j].Value += a0
						l.Pairs[j].Name = a1 + l.Pairs[j].Name
					}
				}
				candidates[k] = l.Pairs
			}
			model.Pairs = candidates[0]
			if !compare(where, false) {
				return
			}
			continue
		}
		before := append([]refmodel.Pair(nil), model.Pairs...)
		var beforeRaw []refmodel.Pair
		if op.Name == "sp.sort" {
			beforeRaw = readPairs(sp)
		}
		if pan := ctx.Call(opBytes(op)+len(input)+4096, func() { applyOp(u, op) }); pan != nil {
			ctx.Violate("SearchParams operation panics", "", pan.String(), where)
			return
		}
		ctx.Count("op:" + op.Name)
		a0, a1 := refmodel.Scalar(op.Arg(0)), refmodel.Scalar(op.Arg(1))
		switch op.Name {
		case "sp.append":
			model.Append(a0, a1)
			names[a0] = true
		case "sp.delete":
			model.Delete(a0)
			names[a0] = true
		case "sp.set":
			model.Set(a0, a1)
			names[a0] = true
		case "sp.rewrite":
			// every pair rewritten through the pointers Iterate hands out
			for j := range model.Pairs {
				model.Pairs[j].Value += a0
				model.Pairs[j].Name = a1 + model.Pairs[j].Name
			}
		case "sp.sort", "sp.sortabs":
			raw := readPairs(sp)
			got := scalarPairs(raw)
			if !isPermutation(got, before) {
				ctx.Violate("sorting is not a permutation of the list", pairsJSON(before), pairsJSON(got), where)
				return
			}
			if op.Name == "sp.sort" {
				name := func(p refmodel.Pair) string { return p.Name }
				if !stableAmongEqualNames(beforeRaw, raw) {
					ctx.Violate("Sort is not stable among equal names", pairsJSON(before), pairsJSON(got), where)
					return
				}
				if !sortedBy(raw, name, lessBytes) && !sortedBy(got, name, lessBytes) && !sortedBy(got, name, refmodel.LessUTF16) {
					ctx.Violate("Sort does not order by name (neither in byte order nor in UTF-16 code unit order)", pairsJSON(before), pairsJSON(got), where)
					return
				}
			} else {
				concat := func(p refmodel.Pair) string { return p.Name + p.Value }
				pairKey := func(p refmodel.Pair) string { return p.Name + "\x00" + p.Value }
				okAny := sortedBy(raw, concat, lessBytes) || sortedBy(raw, pairKey, lessBytes) || sortedBy(got, concat, lessBytes) || sortedBy(got, concat, refmodel.LessUTF16) ||
					sortedBy(got, pairKey, lessBytes) || sortedByPair(got)
				if !okAny {
					ctx.Violate("SortAbsolute does not order by name and value", pairsJSON(before), pairsJSON(got), where)
					return
				}
			}
			model.Pairs = got // adopt the (valid) order the implementation chose
		case "sp.get", "sp.has", "sp.string", "sp.iterate":
			names[a0] = true
		}
		if !compare(where, true) {
			return
		}
	}
	if mode == 2 {
		compare("at the end", false)
	}
}

// c11SortCandidates: the orders a correct Sort / SortAbsolute may produce (stable; byte or
// UTF-16 code unit collation; for SortAbsolute by name+value or by (name, value)).
func c11SortCandidates(pairs []refmodel.Pair, absolute bool) [][]refmodel.Pair {
	var out [][]refmodel.Pair
	add := func(less func(a, b refmodel.Pair) bool) {
		c := append([]refmodel.Pair(nil), pairs...)
		sort.SliceStable(c, func(i, j int) bool { return less(c[i], c[j]) })
		for _, o := range out {
			if pairsEqual(o, c) {
				return
			}
		}
		out = append(out, c)
	}
	if !absolute {
		add(func(a, b refmodel.Pair) bool { return a.Name < b.Name })
		add(func(a, b refmodel.Pair) bool { return refmodel.LessUTF16(a.Name, b.Name) })
		return out
	}
	add(func(a, b refmodel.Pair) bool { return a.Name+a.Value < b.Name+b.Value })
	add(func(a, b refmodel.Pair) bool { return refmodel.LessUTF16(a.Name+a.Value, b.Name+b.Value) })
	add(func(a, b refmodel.Pair) bool {
		if a.Name != b.Name {
			return a.Name < b.Name
		}
		return a.Value < b.Value
	})
	add(func(a, b refmodel.Pair) bool {
		if a.Name != b.Name {
			return refmodel.LessUTF16(a.Name, b.Name)
		}
		return refmodel.LessUTF16(a.Value, b.Value)
	})
	return out
}

func sortedByPair(ps []refmodel.Pair) bool {
	for i := 1; i < len(ps); i++ {
		a, b := ps[i-1], ps[i]
		if a.Name != b.Name {
			if refmodel.LessUTF16(b.Name, a.Name) {
				return false
			}
		} else if refmodel.LessUTF16(b.Value, a.Value) {
			return false
		}
	}
	return true
}
