package mon

import (
	"strings"

	"verif/core"
	"verif/gen"
	"verif/obs"
	"verif/refmodel"
)

// C01 — conformance of parsing to the standard (with and without base): differential
// monitor against the reference model on every generated (input, base).
type c01 struct{}

func init() { core.Register(c01{}) }

func (c01) ID() string { return "C01" }

func (c01) Info() core.Info {
	return core.Info{
		Rule: "differential monitor: url.Parse / url.ParseRef / (*Url).Parse vs the reference model M (SPEC-NOTES.md) on " +
			"(a) W-small: every string of length <= L over the alphabet 'a:/\\?#@.1[]%' (L=5 quick, 6 thorough) without base and against 4 fixed bases, and every string of length <= 5/7 over 'c|:/\\.?#' as file: URL and against 4 file bases (drive-letter quirks) " +
			"(bounded-exhaustive), (b) W-corpus, W-grammar and W-mutate inputs x W-bases. Compared: success/failure, Href and the nine getters. " +
			"A case is non-trivial when the model or the implementation produced a URL record or the parser made more than 3 main-loop steps " +
			"before failing; distinct = distinct (input, base, entry point) triples.",
		Assumptions: []string{
			"SPEC-NOTES.md is a faithful transcription of the 24 May 2023 URL Standard (bounded by the WPT self-check run before every check)",
			"the UTS #46 mapping of non-ASCII / xn-- labels is taken as given from the implementation (property text)",
			"the empty string as base means 'no base' (API convention of ParseRef)",
		},
		MinDistinct: map[string]int{"quick": 100000, "thorough": 1000000},
		NeedsModel:  true,
	}
}

func (c01) Plan(tier string) core.Plan { return core.Plan{Shards: 16} }

// giantSizes: input lengths just beyond powers of two up to 2 MiB (quick) / 16 MiB (thorough).
func giantSizes(tier string) []int {
	s := []int{1<<16 + 1, 1<<20 + 1, 1<<21 + 1}
	if tier == "thorough" {
		s = append(s, 1<<22+1, 1<<24+1)
	}
	return s
}

type giantShape struct {
	prefix, frag, suffix, base string
}

func (g giantShape) build(n int) string {
	return g.prefix + strings.Repeat(g.frag, n/len(g.frag)+1) + g.suffix
}

// shapes whose cost in the reference model is linear (many short segments / pairs)
var giantShapes = []giantShape{
	{prefix: "http://h", frag: "/a"},
	{prefix: "http://h/?", frag: "a=b&"},
	{prefix: "a:", frag: "/a", suffix: "?q#f"},
	{prefix: "", frag: "a/", base: "http://h/x/y?q"},
	{prefix: "file:///C:", frag: "/a/.."},
}

const fileAlphabet = "c|:/\\.?#"

var fileBases = []struct {
	has  bool
	base string
}{
	{false, ""},
	{true, "file:///"},
	{true, "file:///C:/a/b"},
	{true, "file://h/x/y?q#f"},
	{true, "file:///C:"},
}

func (m c01) Run(ctx *core.Ctx) {
	L := 5
	if ctx.Tier == "thorough" {
		L = 6
	}
	total := gen.SmallCount(len(gen.SmallAlphabet), L)
	for idx := int64(ctx.Shard); idx < total; idx += int64(ctx.NShards) {
		s := gen.SmallString(gen.SmallAlphabet, idx)
		for _, b := range smallBases {
			cs := &core.Case{Check: "small", Input: core.S(s), Base: core.S(b.base), HasBase: b.has}
			ctx.Begin(cs)
			m.Exec(ctx, cs)
		}
	}
	// second bounded-exhaustive core: the file / drive-letter quirks (alphabet 'c | : / \\ . ? #')
	// as references against file bases and as file: URLs
	L2 := 5
	if ctx.Tier == "thorough" {
		L2 = 7
	}
	total2 := gen.SmallCount(len(fileAlphabet), L2)
	for idx := int64(ctx.Shard); idx < total2; idx += int64(ctx.NShards) {
		s := gen.SmallString(fileAlphabet, idx)
		for _, b := range fileBases {
			in := s
			if !b.has {
				in = "file:" + s
			}
			cs := &core.Case{Check: "small-file", Input: core.S(in), Base: core.S(b.base), HasBase: b.has}
			ctx.Begin(cs)
			m.Exec(ctx, cs)
		}
	}
	// a few giant inputs just beyond power-of-two sizes (input-size guards, buffer thresholds)
	for k, size := range giantSizes(ctx.Tier) {
		if k%ctx.NShards != ctx.Shard%len(giantSizes(ctx.Tier)) && ctx.NShards > 1 && (k+ctx.Shard)%4 != 0 {
			continue
		}
		shape := giantShapes[(k+ctx.Shard)%len(giantShapes)]
		cs := &core.Case{Check: "giant", Input: core.S(shape.build(size)), Base: core.S(shape.base), HasBase: shape.base != ""}
		ctx.Begin(cs)
		m.Exec(ctx, cs)
	}
	n := split(tierN(ctx.Tier, 2_000_000, 40_000_000), ctx.Shard, ctx.NShards)
	for i := int64(0); i < n; i++ {
		in := gen.Input(ctx.Rng)
		if ctx.Rng.IntN(4) == 0 {
			in = gen.Reference(ctx.Rng)
		}
		base, has := pickBase(ctx.Rng)
		cs := &core.Case{Check: "generated", Input: core.S(in), Base: core.S(base), HasBase: has}
		ctx.Begin(cs)
		m.Exec(ctx, cs)
	}
}

func (c01) Exec(ctx *core.Ctx, cs *core.Case) {
	input, base := string(cs.Input), string(cs.Base)
	hasBase := cs.HasBase && base != ""
	mu := modelParse(M, input, base, hasBase)
	var want [10]string
	if mu != nil {
		want = mu.Ten()
		ctx.Count("model_accepts")
	} else {
		ctx.Count("model_rejects")
	}
	if len(input)%8 == 3 {
		interfereCase(ctx, input, base, hasBase)
	}
	entries := 1
	if hasBase {
		entries = 2
		ctx.Count("with_base")
	}
	for e := 0; e < entries; e++ {
		entry := "url.Parse"
		if hasBase {
			entry = "url.ParseRef"
			if e == 1 {
				entry = "(*Url).Parse"
			}
		}
		if len(input)%8 == 5 {
			// the same call twice, judging the second result (memo fields, one-entry caches)
			_, _, _ = parseImpl(ctx, nil, input, base, hasBase, e == 1)
		}
		u, err, pan := parseImpl(ctx, nil, input, base, hasBase, e == 1)
		if pan != nil {
			ctx.Nontrivial()
			ctx.Violate("panic instead of the standard's result", describeModel(mu), pan.String(), entry)
			continue
		}
		ok := err == nil && u != nil
		if ok || mu != nil {
			ctx.Nontrivial()
		}
		if err == nil && u == nil {
			ctx.Violate("parse returned neither URL nor error", describeModel(mu), "nil, nil", entry)
			continue
		}
		if ok != (mu != nil) {
			if ok {
				ctx.Violate("accepted, but the standard fails", "failure", u.Href(false), entry)
			} else {
				ctx.Violate("rejected, but the standard succeeds", want[0], errString(err), entry)
			}
			continue
		}
		if !ok {
			continue
		}
		got := obs.TakeTen(u)
		if got != want {
			ctx.Violate("result differs from the standard's", want, got, entry+": "+strings.Join(obs.DiffTen(refmodel.TenNames, want, got), "; "))
		}
		if e == 0 {
			if u.IsSpecialScheme() {
				ctx.Count("special")
			}
			if u.OpaquePath() {
				ctx.Count("opaque_path")
			}
			if u.IsIPv4() {
				ctx.Count("host_ipv4")
			}
			if u.IsIPv6() {
				ctx.Count("host_ipv6")
			}
		}
	}
}

func describeModel(mu *refmodel.URL) string {
	if mu == nil {
		return "failure"
	}
	return mu.Href(false)
}
