package mon

import (
	"fmt"
	"math/rand/v2"
	"strings"

	"github.com/nlnwa/whatwg-url/url"

	"verif/core"
	"verif/gen"
)

// C17 — canonical output is a fixed point of its own canonicalizer.
type c17 struct{}

func init() { core.Register(c17{}) }

func (c17) ID() string { return "C17" }

func (c17) Info() core.Info {
	return core.Info{
		Rule: "idempotence monitor: P(x) succeeds => P(P(x).String()) succeeds with the same string. Domain (a): WhatWg, WhatWgSortQuery and all 96 compositions of the canonicalizer's own " +
			"options (remove-user-info, remove-port, remove-fragment, default-scheme on/off, repeated-decoding on/off, sort none/keys/parameter) over the default parser, on ALL strings " +
			"(corpus, grammar, mutation; W-small L<=4). Domain (b): GoogleSafeBrowsing and Semantic on the ordinary-web-URL grammar of the property (http/https/ftp/ws/wss; LDH labels or an " +
			"IPv4/IPv6 literal in any spelling; optional unreserved credentials and port; segments, query names/values, fragment over A-Za-z0-9-._~ written literally or percent-encoded to " +
			"depth 0-3 in either hex case; dot segments only as separate singly-encoded insertions; tabs/newlines, surrounding whitespace). " +
			"Encodings are applied in layers (any character of the previous layer's text, also '%' and hex digits of escapes). For a third of the cases other parser values, or the same profile with the same raw host text in a non-special URL, " +
			"run first (caches keyed too narrowly). Non-trivial: the first canonicalization succeeded (so the second one was compared); distinct by (profile, input).",
		Assumptions: []string{"outside domain (b) the experimental profiles are known not to be idempotent (stated in the property)"},
		MinDistinct: map[string]int{"quick": 100000, "thorough": 1000000},
	}
}

func (c17) Plan(tier string) core.Plan { return core.Plan{Shards: 16} }

// composedConfig returns the i-th (0..95) composition of the canonicalizer's own options.
func composedConfig(i int) []string {
	cfg := []string{"canon"}
	if i&1 != 0 {
		cfg = append(cfg, "removeuserinfo")
	}
	if i&2 != 0 {
		cfg = append(cfg, "removeport")
	}
	if i&4 != 0 {
		cfg = append(cfg, "removefragment")
	}
	if i&8 != 0 {
		cfg = append(cfg, "defaultscheme:http")
	}
	if i&16 != 0 {
		cfg = append(cfg, "repeateddecode")
	}
	switch i >> 5 {
	case 1:
		cfg = append(cfg, "sort:keys")
	case 2:
		cfg = append(cfg, "sort:param")
	}
	return cfg
}

func randomComposed(r *rand.Rand) []string {
	switch r.IntN(12) {
	case 0:
		return []string{"profile:WhatWg"}
	case 1:
		return []string{"profile:WhatWgSortQuery"}
	}
	cfg := composedConfig(r.IntN(96))
	if r.IntN(3) == 0 {
		cfg = append(cfg, "numeric") // documented numeric sort modes
	}
	if r.IntN(3) == 0 {
		cfg = append(cfg, "shuffled") // options in another order
	}
	return cfg
}

func (m c17) Run(ctx *core.Ctx) {
	r := ctx.Rng
	// (a) W-small x a rotating composed profile
	total := gen.SmallCount(len(gen.SmallAlphabet), 4)
	k := 0
	for idx := int64(ctx.Shard); idx < total; idx += int64(ctx.NShards) {
		s := gen.SmallString(gen.SmallAlphabet, idx)
		k++
		cs := &core.Case{Check: "all-strings", Input: core.S(s), Config: composedConfig(k % 96)}
		ctx.Begin(cs)
		m.Exec(ctx, cs)
	}
	n := split(tierN(ctx.Tier, 800_000, 25_000_000), ctx.Shard, ctx.NShards)
	for i := int64(0); i < n; i++ {
		in := gen.Input(r)
		if r.IntN(5) == 0 {
			in = "http://h/?" + gen.QueryString(r)
		}
		if r.IntN(8) == 0 {
			in = gen.Web(r).Spell(r, gen.AllVariations)
		}
		cs := &core.Case{Check: "all-strings", Input: core.S(in), Config: randomComposed(r)}
		ctx.Begin(cs)
		m.Exec(ctx, cs)
	}
	n = split(tierN(ctx.Tier, 800_000, 25_000_000), ctx.Shard, ctx.NShards)
	for i := int64(0); i < n; i++ {
		w := gen.Web(r)
		cs := &core.Case{Check: "web-grammar", Input: core.S(w.Spell(r, gen.AllVariations)),
			Config: []string{gen.Pick(r, []string{"profile:GoogleSafeBrowsing", "profile:Semantic"})}}
		ctx.Begin(cs)
		m.Exec(ctx, cs)
	}
}

func canonParse(ctx *core.Ctx, p url.Parser, in string) (string, bool, *core.Panic) {
	return canonParseVia(ctx, p, in, 0)
}

// canonRouteBases: route 0 is Parse; route k > 0 is ParseRef(canonRouteBases[k], in) - for an
// absolute URL the base is irrelevant, and with the empty base ParseRef either refuses (today)
// or has to canonicalize like Parse does.
var canonRouteBases = []string{"", "http://other.example/x/y?q#f", "", "file:///C:/a"}

func canonParseVia(ctx *core.Ctx, p url.Parser, in string, route int) (string, bool, *core.Panic) {
	var u *url.Url
	var err error
	var pan *core.Panic
	if route == 0 {
		u, err, pan = parseImpl(ctx, p, in, "", false, false)
	} else {
		pan = ctx.Call(len(in)+256, func() { u, err = p.ParseRef(canonRouteBases[route], in) })
	}
	if pan != nil {
		return "", false, pan
	}
	if err != nil || u == nil {
		return errString(err), false, nil
	}
	var s string
	if pan := ctx.Call(len(in)+64, func() { s = u.String() }); pan != nil {
		return "", false, pan
	}
	return s, true, nil
}

func (c17) Exec(ctx *core.Ctx, cs *core.Case) {
	p := buildParser(cs.Config)
	in := string(cs.Input)
	switch len(in) % 6 {
	case 1:
		interfere(ctx, in) // other parser values have seen this input before (cross-parser caches)
	case 2:
		sameParserHistory(ctx, p, in)
	}
	// the entry points vary: the input may be canonicalized as a reference against a base
	// (ParseRef), and the canonical string may be fed back through Parse or ParseRef
	r1, r2 := 0, 0
	switch k := len(in) % 20; {
	case k == 7 || k == 11:
		r1 = 1
	case k == 13:
		r1 = 3
	case k == 17 || k == 19:
		r2 = 1
	}
	s1, ok1, pan := canonParseVia(ctx, p, in, r1)
	if pan != nil {
		ctx.Count("panic(C02)")
		return
	}
	if !ok1 {
		ctx.Count("rejected")
		return
	}
	ctx.Nontrivial()
	ctx.Count("canonicalized:" + cs.Check)
	if r1 != 0 || r2 != 0 {
		ctx.Count(fmt.Sprintf("routes:%d/%d", r1, r2))
	}
	s2, ok2, pan := canonParseVia(ctx, p, s1, r2)
	if pan != nil {
		ctx.Violate("canonicalizing a canonical string panics", s1, pan.String(), fmt.Sprint(cs.Config))
		return
	}
	if !ok2 {
		ctx.ViolateV(&core.Violation{Class: "canonical output is rejected by its own canonicalizer (" + cs.Check + ")", Expected: s1, Observed: s2, Note: strings.Join(cs.Config, ",")})
		return
	}
	if s1 != s2 {
		ctx.ViolateV(&core.Violation{Class: "canonicalizing twice gives a different string (" + cs.Check + ")", Expected: s1, Observed: s2, Note: strings.Join(cs.Config, ",")})
	}
}
