package mon

import (
	"fmt"
	"strings"

	"github.com/nlnwa/whatwg-url/url"

	"verif/core"
	"verif/gen"
	"verif/obs"
)

// C02 — total API: no panic, no hang, URL-or-error, under every configuration.
type c02 struct{}

func init() { core.Register(c02{}) }

func (c02) ID() string { return "C02" }

func (c02) Info() core.Info {
	return core.Info{
		Rule: "crash/termination monitor: recover() around every public call + logical step budget (hook: 64*(bytes)+4096 main-loop steps and cursor moves) + " +
			"RLIMIT_CPU watchdog per worker with single-case confirmation; checks (url != nil) or (err != nil), and that every getter, SearchParams(), Clone(), " +
			"ValidationErrors() and String() work on every URL returned with a nil error. Configurations: (quick) 16 option masks per shard drawn from the 2^14 " +
			"on/off combinations of the 10 switches + 4 hostile argument options, sampled configurations over all 25 options, the 4 predefined profiles; " +
			"(thorough) all 2^14 masks. Inputs/bases/setter values: W-mutate with invalid UTF-8, NUL, long repetitions (16 KiB quick, 64 KiB thorough); " +
			"histories of setters, SearchParams operations, Clone, resolve, Canonicalize. Non-trivial: a URL was produced and at least one history " +
			"operation ran on it, or the parser made more than 3 steps before failing; distinct by (config, input, base, history).",
		Assumptions: []string{"nil pointer arguments and panicking user callbacks are outside the property (it quantifies over argument strings)",
			"BasicParser with an arbitrary state override is not one of the operations the property lists"},
		MinDistinct: map[string]int{"quick": 100000, "thorough": 2000000},
	}
}

func (c02) Plan(tier string) core.Plan { return core.Plan{Shards: 16, CPUSeconds: 900} }

var longFragments = []string{"@", ":", "/", "\\", "?", "#", "a", ".", "/..", "/.", "%", "%41", "é", "\xff", "[", "]", " ", "\t", "&", "=", "+", "a.", "1.", "0x", "::", "/a/..", "%2e/", "a=b&"}

func longInput(ctx *core.Ctx, max int) string {
	r := ctx.Rng
	prefix := gen.Pick(r, []string{"http://", "http://h/", "http://h/?", "http://h/#", "a:", "a://", "file:///", "", "http://u:", "http://[", "//", "?"})
	frag := gen.Pick(r, longFragments)
	n := max / len(frag)
	n = n/2 + r.IntN(n/2+1)
	suffix := gen.Pick(r, []string{"", "@h/", "/", "?q", "#f", "]", ":80/"})
	return prefix + strings.Repeat(frag, n) + suffix
}

func hostileString(ctx *core.Ctx) string {
	r := ctx.Rng
	switch r.IntN(6) {
	case 0:
		return gen.Pick(r, gen.HandSeeds)
	case 1:
		b := make([]byte, r.IntN(24))
		for i := range b {
			b[i] = byte(r.IntN(256))
		}
		return string(b)
	default:
		return gen.Input(r)
	}
}

func (m c02) genCase(ctx *core.Ctx, cfg []string, maxLong int) *core.Case {
	r := ctx.Rng
	cs := &core.Case{Check: "history", Config: cfg}
	cs.Input = core.S(hostileString(ctx))
	if r.IntN(3) == 0 {
		cs.HasBase = true
		cs.Base = core.S(gen.Base(r))
		if r.IntN(8) == 0 {
			cs.Base = core.S(hostileString(ctx))
		}
		if r.IntN(2) == 0 {
			cs.Input = core.S(gen.Reference(r))
		}
	}
	if r.IntN(200) == 0 {
		cs.Input = core.S(longInput(ctx, maxLong))
	} else if cs.HasBase && r.IntN(200) == 0 {
		cs.Base = core.S(longInput(ctx, maxLong))
	}
	cs.N = r.IntN(2)
	if r.IntN(40) == 0 {
		cs.Check = "newurl"
	}
	if r.IntN(30) == 0 {
		// a parameter list just beyond a small/large cut-off, with the names the look-ups after every step use
		for j := gen.Pick(r, gen.ThresholdSizes[:5]); j > 0; j-- {
			cs.Ops = append(cs.Ops, sOp("sp.append", gen.Pick(r, []string{"a", "b", "c", "k", "a"}), fmt.Sprint(j)))
		}
		cs.Ops = append(cs.Ops, sOp(gen.Pick(r, []string{"search", "hash", "pathname"}), gen.Pick(r, []string{"", "", "x=1", "a=2"})))
	}
	n := r.IntN(6)
	for i := 0; i < n; i++ {
		op := genOp(r, histKinds{setters: true, resolve: true, clone: true, sp: true, spRead: true, extra: true})
		if r.IntN(12) == 0 {
			op = sOp("canonicalize")
		}
		if r.IntN(25) == 0 {
			op = sOp(gen.Pick(r, []string{"setsp-self", "setsp-clone", "setsp-roundtrip"}))
		}
		if r.IntN(300) == 0 && len(op.Args) > 0 {
			op.Args[len(op.Args)-1] = core.S(longInput(ctx, maxLong/4))
		}
		cs.Ops = append(cs.Ops, op)
	}
	return cs
}

func (m c02) Run(ctx *core.Ctx) {
	r := ctx.Rng
	maxLong := 16 << 10
	if ctx.Tier == "thorough" {
		maxLong = 64 << 10
	}
	if ctx.Tier == "thorough" {
		// all 2^14 masks, split over the shards
		per := 160
		for mask := ctx.Shard; mask < 1<<14; mask += ctx.NShards {
			cfg := maskConfig(mask)
			for i := 0; i < per; i++ {
				cs := m.genCase(ctx, cfg, maxLong)
				ctx.Begin(cs)
				m.Exec(ctx, cs)
			}
		}
		ctx.Add("masks_enumerated", int64((1<<14)/ctx.NShards))
	} else {
		for k := 0; k < 24; k++ {
			cfg := maskConfig(r.IntN(1 << 14))
			for i := 0; i < 1200; i++ {
				cs := m.genCase(ctx, cfg, maxLong)
				ctx.Begin(cs)
				m.Exec(ctx, cs)
			}
		}
	}
	// sampled configurations over the full option space + the four profiles
	nCfg := int(split(tierN(ctx.Tier, 1000, 6000), ctx.Shard, ctx.NShards))
	perCfg := int(tierN(ctx.Tier, 1200, 2500))
	for k := 0; k < nCfg; k++ {
		cfg := randomConfig(r)
		if k < len(profileNames) {
			cfg = []string{profileNames[k]}
		}
		for i := 0; i < perCfg; i++ {
			cs := m.genCase(ctx, cfg, maxLong)
			ctx.Begin(cs)
			m.Exec(ctx, cs)
		}
	}
}

type canonicalizerIface interface {
	Canonicalize(u *url.Url) (*url.Url, error)
}

func touchAll(u *url.Url) { touchAllOrdered(u, 0) }

// touchAllOrdered reads everything; which read comes first depends on order (a read may refresh
// state that another read would have tripped over).
func touchAllOrdered(u *url.Url, order int) {
	lookups := func() {
		sp := u.SearchParams()
		switch order % 3 {
		case 0:
			_ = sp.String()
			_ = sp.Has("a")
			_ = sp.Get("a")
			_ = sp.GetAll("a")
		case 1:
			_ = sp.Get("a")
			_ = sp.GetAll("k")
			_ = sp.Has("b")
			_ = sp.String()
		default:
			_ = sp.GetAll("a")
			_ = sp.Has("a")
			_ = sp.Get("c")
			_ = sp.String()
		}
	}
	if order%2 == 1 {
		lookups()
		_ = u.ValidationErrors()
		_ = obs.Take(u)
	} else {
		_ = obs.Take(u)
		_ = u.ValidationErrors()
		lookups()
	}
	c := u.Clone()
	_ = c.Href(false)
}

func (c02) Exec(ctx *core.Ctx, cs *core.Case) {
	input, base := string(cs.Input), string(cs.Base)
	var p url.Parser
	if pan := ctx.Call(64, func() { p = buildParser(cs.Config) }); pan != nil {
		ctx.Violate("constructing the parser panics", "no panic", pan.String(), fmt.Sprint(cs.Config))
		return
	}
	ctx.Count("cfg:" + configKind(cs.Config))
	var u *url.Url
	var err error
	var pan *core.Panic
	if cs.Check == "newurl" {
		pan = ctx.Call(64, func() { u = p.NewUrl() })
	} else {
		u, err, pan = parseImpl(ctx, p, input, base, cs.HasBase, cs.N == 1)
	}
	if pan != nil {
		ctx.Nontrivial()
		class := "panic in a parse call"
		if pan.Budget {
			class = "parse call exceeded the step budget (does not terminate in a linear number of steps)"
		}
		ctx.Violate(class, "returns normally", pan.String(), "site "+pan.Site)
		return
	}
	if u == nil && err == nil {
		ctx.Violate("parse returned a nil URL with a nil error", "URL or error", "nil, nil", "")
		return
	}
	if err != nil || u == nil {
		ctx.Count("parse_failed")
		if len(input) > 3 {
			ctx.Nontrivial()
		}
		return
	}
	ctx.Count("parse_ok")
	total := len(input) + len(base)
	if pan := ctx.Call(total+len(u.Href(false)), func() { touchAll(u) }); pan != nil {
		ctx.Violate("a getter panics on a URL returned with a nil error", "returns normally", pan.String(), "site "+pan.Site)
		return
	}
	// observation: a third of the cases read nothing between the steps (everything is read once,
	// after the last step); the order of the reads varies per case
	hsh := cs.Hash()
	quiet := hsh%3 == 1
	order := int(hsh >> 8 % 6)
	grown := 0
	for i, op := range cs.Ops {
		var href string
		if !quiet {
			if pan := ctx.Call(64, func() { href = u.Href(false) }); pan != nil {
				ctx.Violate("Href panics after a history step", "returns normally", pan.String(), fmt.Sprintf("before op %d", i))
				return
			}
		} else {
			href = strings.Repeat("?", grown+256) // not read: only its length feeds the budget
		}
		grown += opBytes(op)
		budget := opBytes(op) + len(href) + total
		pan := ctx.Call(budget, func() {
			if op.Name == "canonicalize" {
				if c, ok := p.(canonicalizerIface); ok {
					if n, err := c.Canonicalize(u.Clone()); err == nil && n != nil {
						u = n
					}
				}
				return
			}
			u = applyOp(u, op)
		})
		if pan == nil && (!quiet || i == len(cs.Ops)-1) {
			pan = ctx.Call(budget+len(href)+64, func() { touchAllOrdered(u, order) })
		}
		if pan != nil {
			ctx.Nontrivial()
			class := "panic in " + opKind(op.Name)
			if pan.Budget {
				class = opKind(op.Name) + " exceeded the step budget"
			}
			if quiet {
				href = "(not read: quiet case)"
			}
			ctx.Violate(class, "returns normally", pan.String(), fmt.Sprintf("op %d %s, site %s, url before: %q", i, clipS(op.String(), 200), pan.Site, clipS(href, 200)))
			return
		}
		ctx.Count("op:" + opKind(op.Name))
	}
	if len(cs.Ops) > 0 {
		ctx.Nontrivial()
	}
}

func clipS(s string, n int) string {
	if len(s) > n {
		return s[:n] + "..."
	}
	return s
}

func opKind(name string) string {
	name, _, _ = splitRespell(name)
	switch {
	case obs.IsSetter(name):
		return "setter"
	case strings.HasPrefix(name, "sp."), strings.HasPrefix(name, "setsp"):
		return "searchparams"
	}
	return name
}

func configKind(cfg []string) string {
	if len(cfg) == 1 && strings.HasPrefix(cfg[0], "profile:") {
		return cfg[0]
	}
	for _, c := range cfg {
		if c == "canon" || strings.HasPrefix(c, "remove") || strings.HasPrefix(c, "sort:") || strings.HasPrefix(c, "defaultscheme") || c == "repeateddecode" {
			return "canonicalizer.New"
		}
	}
	return "url.NewParser"
}
